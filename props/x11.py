"""X11 -- decision-tree introspection and export (linfa-trees): iter_nodes, features, mean / relative impurity
decrease, feature_importance, max_depth, num_leaves, root_node, the TreeNode accessors and export_to_tikz
(extension of the specification beyond the listed properties; C14 owns the fitted structure and predictions).

(A) DTreeIntro.tla (EXTENDS DTree): DTree's Grow / Prune builds every tree of the bounded domain, NodeIter is modelled
    as a queue machine; TLC checks level order, the count identities, features() = first use, the importance algebra
    and that the checking relations accept the hand definition / reject the usual wrong answers (WITNESS lines).
(B) Gen_DTreeIntro.tla (EXTENDS Gen_DTree): the C14 lattice families x feature names present/absent x Tikz options.
(C) harness x11 fits the real linfa_trees::DecisionTree, walks it, records every accessor, parses the Tikz text back
    into a tree; Trace_DTreeIntro.tla judges the observations.
"""
import re
import vlib

MODEL = {"quick": [dict(MaxN=3, MaxV=2, MaxK=2, MaxD=1, Mws="{8}", Mwl="{4}", Mid="{10}"),
                   dict(MaxN=3, MaxV=1, MaxK=2, MaxD=2, Mws="{8}", Mwl="{4}", Mid="{10}")],
         "thorough": [dict(MaxN=4, MaxV=2, MaxK=2, MaxD=1, Mws="{8, 10}", Mwl="{4}", Mid="{10, 250000}"),
                      dict(MaxN=4, MaxV=1, MaxK=2, MaxD=2, Mws="{8}", Mwl="{4}", Mid="{10}")]}
INVS = ["InvIterPrefix", "InvIterCanon", "InvIterProps", "InvCharacterised", "InvCounts", "InvFeatures",
        "InvStatsAreFitTime", "InvImportance", "InvRejects"]
ACTIONS = ["Build", "IterStart", "IterNext"]
WITNESSES = ["sum", "raw", "rel"]
LN_INVS = ["LnOne6", "LnStep6", "LnProduct6", "LnMono6", "LnElem6", "LnAnchors6"]
TRACE_CONST = dict(MaxN=0, MaxV=0, MaxK=0, MaxD=0, Mws="{}", Mwl="{}", Mid="{}")

ALLP = "{0, 1, 2, 3, 4, 5, 6, 7, 8, 9, 10, 11, 12, 13}"
ALLD = "{9, 0, 1, 2}"      # 9 = None


def G(dim, minn, maxn, maxv, maxk, mod, per, sel=0, big=False, profiles=ALLP, depths=ALLD):
    """Gen_DTree constants (see props/c14.py): datasets with Hash % mod = sel; per = combinations per dataset, 0 = all"""
    return dict(Dim=dim, MinN=minn, MaxN=maxn, MaxV=maxv, MaxK=maxk, Mod=mod, Sel=sel, PerData=per,
                Big="TRUE" if big else "FALSE", Profiles=profiles, Depths=depths)


# the C14 lattice families (name, generator constants, exhaustive?), thinned to other residue classes than C14 uses
GEN = {
    "quick": [
        ("d1-small", G(1, 2, 3, 2, 2, 1, 0, profiles="{1}", depths="{9, 1}"), True),
        ("d1", G(1, 4, 6, 3, 3, 26, 2, sel=5, depths="{9, 0, 1, 2, 3}"), False),
        ("d1-wide", G(1, 6, 6, 5, 3, 400, 1, sel=7, profiles="{1, 5, 0}", depths="{9, 3}"), False),
        ("d2", G(2, 4, 5, 2, 3, 90, 2, sel=11, depths="{9, 0, 1, 2, 3}"), False),
        ("d2-n6", G(2, 6, 6, 2, 3, 1500, 1, sel=3, profiles="{1, 5, 0}", depths="{9, 2, 3}"), False),
        ("f32-neighbours", G(1, 2, 3, 2, 2, 1, 4, big=True, profiles="{1, 3}", depths="{9, 1, 2}"), False),
    ],
    "thorough": [
        ("d1-small", G(1, 1, 3, 2, 3, 1, 0, profiles="{0, 1, 2, 3, 4, 5, 6, 7}"), True),
        ("d1-frac", G(1, 2, 4, 3, 2, 1, 4, profiles="{8, 9, 10, 11, 12, 13}", depths="{9, 0, 1, 2}"), False),
        ("d1", G(1, 4, 5, 3, 3, 1, 3), False),
        ("d1-n6", G(1, 6, 6, 3, 3, 3, 2, sel=1, depths="{9, 0, 1, 2, 3}"), False),
        ("d1-wide", G(1, 6, 6, 5, 3, 40, 2, sel=7, profiles="{1, 5, 0}", depths="{9, 2, 3}"), False),
        ("d2", G(2, 2, 4, 2, 3, 2, 2, sel=1), False),
        ("d2-n5", G(2, 5, 5, 2, 3, 9, 1, sel=4, depths="{9, 0, 1, 2, 3}"), False),
        ("d2-n6", G(2, 6, 6, 2, 3, 150, 1, sel=3, profiles="{1, 5, 0}", depths="{9, 2, 3}"), False),
        ("f32-neighbours", G(1, 2, 4, 3, 3, 1, 3, big=True, profiles="{1, 3, 5}", depths="{9, 1, 2, 3}"), False),
    ],
}

LAYOUTS = ["std", "forder", "tview", "revrows", "revcols", "everyrow2", "everycol2"]
PROFILES = [(8, 4, 10), (12, 4, 10), (8, 8, 10), (8, 4, 200000), (4, 2, 10), (16, 6, 100000), (8, 10, 10),
            (20, 12, 10), (8, 4, 20000), (8, 3, 1000), (10, 4, 10), (6, 6, 10), (9, 9, 10), (8, 0, 10)]
NAMECODES = [5, 3, 9]


def random_cases(ctx, count):
    """seeded random cases of the same schema: n <= 40, <= 3 features on 0..6, <= 6 classes, dyadic weights"""
    out = []
    r = ctx.rng
    for _ in range(count):
        n = r.randint(6, 40)
        d = r.randint(1, 3)
        k = r.randint(2, 6)
        maxv = r.choice([1, 2, 3, 6])
        x = [[r.randint(0, maxv) for _ in range(d)] for _ in range(n)]
        if r.random() < 0.3:
            j = r.randrange(d)
            for row in x:
                row[j] = 1
        if r.random() < 0.5:
            y = [(row[0] + (r.randint(0, k - 1) if r.random() < 0.3 else 0)) % k for row in x]
        else:
            y = [r.randint(0, k - 1) for _ in range(n)]
        w4 = [] if r.random() < 0.4 else [r.choice([1, 2, 3, 4, 4, 6, 8]) for _ in range(n)]
        mws4, mwl4, mid6 = r.choice(PROFILES)
        lt = r.choice(["usize", "string"] + (["bool"] if max(y) <= 1 else []))
        out.append({"kind": "intro", "inp": {
            "x": x, "y": y, "w4": w4, "d": d, "crit": r.choice(["gini", "entropy"]),
            "md": r.choice([-1, -1, 0, 1, 2, 3, 5]), "mws4": mws4, "mwl4": mwl4, "mid6": mid6,
            "lt": lt, "ft": r.choice(["f64", "f32"]),
            "lay": r.choice(LAYOUTS) if d >= 2 else "std",
            "scale": {"off": 0, "mul": 1, "pm": 1, "plo": -1, "phi": 3},
            "names": r.choice([[], NAMECODES[:d]]), "lg": r.random() < 0.5, "cp": r.random() < 0.5}})
    return out


def mc_design(ctx, consts):
    """(A) the design model; vacuity guards: every action taken (last coverage report) and every WITNESS kind printed"""
    cfg = {"init": "XInit", "next": "XNext", "constants": consts, "invariants": INVS}
    rc, lines = vlib.tlc(ctx, "DTreeIntro", cfg, extra=["-coverage", "1", "-nowarning"])
    if rc != 0:
        vlib.sys.stderr.write("\n".join(l for l in lines[-80:] if "WITNESS" not in l) + "\n")
        raise vlib.ToolError("design model DTreeIntro: TLC rc=%d" % rc)
    gen, dist = vlib.parse_states(lines)
    if dist == 0:
        raise vlib.ToolError("design model DTreeIntro: no states")
    text = "\n".join(l for l in lines if "WITNESS" not in l)
    for a in ACTIONS:
        ms = re.findall(r"<%s line [^>]*>: (\d+):(\d+)" % re.escape(a), text)
        if not ms or int(ms[-1][1]) == 0:
            raise vlib.ToolError("design model DTreeIntro: action %s never taken (vacuous)" % a)
    wit = {w: sum(1 for l in lines if l.strip() == '"WITNESS %s"' % w) for w in WITNESSES}
    ctx.states += dist
    ctx.transitions += gen
    ctx.mc_runs.append({"module": "DTreeIntro", "distinct_states": dist, "states_generated": gen, "constants": consts,
                        "reject_witnesses": wit})
    vlib.log("MC DTreeIntro: %d distinct states, %d generated, witnesses %r" % (dist, gen, wit))
    return wit


def tree_ev(trace):
    for ev in trace["ev"]:
        if ev.get("ev") == "tree":
            return ev
    return None


def stats(trace):
    """measured shape facts of one observed tree (only used for the evidence counters / domain guards).
    Computed from the node structure (root_node / children) alone, never from the accessors under test."""
    ev = tree_ev(trace)
    if ev is None:
        return None
    nodes = ev["nodes"]
    internal = [nd for nd in nodes if not nd["leaf"]]
    pre = [nd["path"] for nd in nodes]
    level = sorted(pre, key=lambda p: (len(p), p))
    first_use = []
    for nd in sorted(internal, key=lambda nd: (len(nd["path"]), nd["path"])):
        if nd["feat"] not in first_use:
            first_use.append(nd["feat"])
    per_depth = {}
    for nd in internal:
        per_depth[len(nd["path"])] = per_depth.get(len(nd["path"]), 0) + 1
    per_feat = {}
    for nd in internal:
        per_feat[nd["feat"]] = per_feat.get(nd["feat"], 0) + 1
    return {"splits": len(internal),
            "bfs_differs_from_preorder": level != pre,
            "two_internal_on_a_level": any(v >= 2 for v in per_depth.values()),
            "features_not_sorted": first_use != sorted(first_use),
            "two_features": len(per_feat) >= 2,
            "feature_with_two_nodes": any(v >= 2 for v in per_feat.values()),
            "unequal_counts": len(set(per_feat.values())) >= 2}


def key(case):
    i = case["inp"]
    return repr((i["x"], i["y"], i["w4"], i["crit"], i["md"], i["mws4"], i["mwl4"], i["mid6"], i["scale"]["off"],
                 i["names"], i["lg"], i["cp"]))


def generate(ctx):
    cases = []
    exhaustive = []
    for name, consts, exh in GEN[ctx.tier]:
        cs = vlib.tlc_gen(ctx, "Gen_DTreeIntro", {"init": "XInit", "next": "XNext", "constants": consts, "invariants": ["XEmit"]},
                          tag="Gen_" + name.replace("-", "_"))
        for c in cs:
            c["inp"]["fam"] = name
        vlib.log("family %s: %d cases" % (name, len(cs)))
        if exh:
            exhaustive.append("%s (%d cases)" % (name, len(cs)))
        cases += cs
    if not ctx.quick:
        rc = random_cases(ctx, 2000)
        for c in rc:
            c["inp"]["fam"] = "random"
        cases += rc
    ctx.extra["exhaustive_families"] = exhaustive
    return cases


def run(ctx):
    binp = vlib.cargo_build("x11")
    vlib.tlc_mc(ctx, "MC_DTreeLn", {"invariants": LN_INVS}, workers=2)
    wit = {w: 0 for w in WITNESSES}
    for consts in MODEL[ctx.tier]:
        for w, cnt in mc_design(ctx, consts).items():
            wit[w] += cnt
    if min(wit.values()) == 0:
        raise vlib.ToolError("design model DTreeIntro: a rejecting side is never reached (vacuous relation): %r" % wit)
    cases = generate(ctx)
    vlib.number(cases)
    ctx.cases = len(cases)
    traces = vlib.run_harness(ctx, binp, cases)
    nt = {}
    counters = {}
    for t in traces:
        s = stats(t)
        if s is None:
            continue
        i = t["inp"]
        if s["splits"] >= 1:
            nt[key(t)] = s["splits"]
        facts = {
            "root_only_trees": s["splits"] == 0,
            "trees_with_split": s["splits"] >= 1,
            "trees_with_3_or_more_splits": s["splits"] >= 3,
            "iter_order_differs_from_preorder": s["bfs_differs_from_preorder"],
            "two_internal_nodes_on_one_level": s["two_internal_on_a_level"],
            "features_order_not_ascending": s["features_not_sorted"],
            "two_features_used": s["two_features"],
            "feature_with_two_nodes": s["feature_with_two_nodes"],
            "features_with_unequal_node_counts": s["unequal_counts"],
            "split_with_names": s["splits"] >= 1 and bool(i["names"]),
            "split_without_names": s["splits"] >= 1 and not i["names"],
            "split_with_legend": s["splits"] >= 1 and i["lg"],
            "split_legend_two_features_names": s["two_features"] and i["lg"] and bool(i["names"]),
            "split_embeddable": s["splits"] >= 1 and not i["cp"],
            "split_complete": s["splits"] >= 1 and i["cp"],
            "split_entropy": s["splits"] >= 1 and i["crit"] == "entropy",
            "split_weighted": s["splits"] >= 1 and bool(i["w4"]),
            "split_label_string": s["splits"] >= 1 and i["lt"] == "string",
            "split_label_bool": s["splits"] >= 1 and i["lt"] == "bool",
            "split_f32": s["splits"] >= 1 and i["ft"] == "f32",
        }
        for k, v in facts.items():
            counters[k] = counters.get(k, 0) + (1 if v else 0)
    ctx.nontrivial = len(nt)
    ctx.extra["domain_counters"] = counters
    vlib.sample(ctx, [t for t in traces if (stats(t) or {}).get("two_features") and t["inp"]["lg"]][:1]
                + [t for t in traces if (stats(t) or {}).get("splits") == 0][:1])
    vlib.validate_with_findings(ctx, "Trace_DTreeIntro", traces, constants=TRACE_CONST, chunk=4000)
    # every dimension the relations discriminate on must occur (a re-tuned family may silently lose one); only a
    # run without violation is refused for this reason -- a defect may itself change the shape of the trees
    missing = [k for k, v in counters.items() if v == 0]
    if (missing or not counters) and not ctx.violations:
        raise vlib.ToolError("case domain lost a class: %r" % (missing or "no observed tree"))
    ctx.exhaustive = False
    ctx.rule = ("cases = the C14 lattice cases (labelled multisets of lattice points x weight pattern x criterion x max_depth x "
                "(min_weight_split, min_weight_leaf, min_impurity_decrease) profile, label / float type, record layout) enumerated by "
                "TLC (Gen_DTreeIntro EXTENDS Gen_DTree), each with feature names present/absent and the Tikz options legend / complete "
                "picked by a hash; families marked exhaustive are complete, the others a fixed residue class"
                " [+ seeded random n<=40, <=3 features, <=6 classes in the thorough tier]; "
                "non-trivial = the fitted tree has at least one split; distinct by (data, weights, hyper-parameters, names, options)")
    ctx.trusted = ["TLC + CommunityModules Json", "harness x11.rs: node identity by address, the Tikz text parser (brackets -> paths, "
                   "decimal text -> hundredths), round(1e6*v), f64 order keys, label embedding", "DTreeLn.Ln6T table (self-checked by MC_DTreeLn)"]
    ctx.assumptions = ["level order is read as: by depth, within a depth left to right (children() is documented 'first left then right')",
                       "features() is read as: split features in the order of first use in level order, each once",
                       "impurity decreases are recomputed from the integer class weights (Gini exact rational by long division, entropy "
                       "with the ln table) and compared with slack 8e-6 / 1.2e-5 per node; relative = mean / sum compared in product form",
                       "importances of a tree without split are unspecified (all NaN or all zero accepted)",
                       "feature names of a dataset without names are unspecified",
                       "Tikz: bracket k of a node = children()[k]; threshold and decrease are printed with two decimals (exact for "
                       "lattice thresholds, +-0.005 for the decrease); the order of the text lines is not prescribed"]
    return vlib.finish(ctx)


def replay(ctx, case):
    binp = vlib.cargo_build("x11")
    case = dict(case)
    case.pop("ev", None)
    traces = vlib.run_harness(ctx, binp, [case])
    ctx.cases = 1
    vlib.validate_with_findings(ctx, "Trace_DTreeIntro", traces, constants=TRACE_CONST)
    return vlib.finish(ctx)
