"""C14 -- decision trees are well-formed, honour their limits and predict leaf majorities (DESIGN.md 8/C14).

(A) DTree.tla: design model Grow/Prune checked by TLC (invariants = the property's predicates).
(B) Gen_DTree.tla: TLC enumerates labelled lattice datasets x weights x hyper-parameters (+ seeded random
    larger datasets in the thorough tier).
(C) harness c14 fits the real linfa_trees::DecisionTree; Trace_DTree.tla judges the observed tree.
"""
import vlib

# set to True once the tree.node hook (docs/reports/C14-hook.diff) is committed in /repo: a run without
# hook events is then a tool error (the fit.reach clause would silently be skipped otherwise)
HOOK_REQUIRED = True

MODEL = {"quick": [dict(MaxN=3, MaxV=2, MaxK=2, MaxD=1, Mws="{8, 10}", Mwl="{4, 5}", Mid="{10, 250000}")],
         "thorough": [dict(MaxN=4, MaxV=2, MaxK=2, MaxD=1, Mws="{8, 10, 13}", Mwl="{2, 4, 5, 8}", Mid="{10, 250000}"),
                      dict(MaxN=4, MaxV=1, MaxK=2, MaxD=2, Mws="{8}", Mwl="{4, 8}", Mid="{10}")]}
INVS = ["InvWellFormed", "InvDepth", "InvClauses", "InvFitReach", "InvConvAgree", "InvLabels", "InvDecNonNeg"]
ACTIONS = ["Grow", "Prune"]
LN_INVS = ["LnOne6", "LnStep6", "LnProduct6", "LnMono6", "LnElem6", "LnAnchors6"]
TRACE_CONST = dict(MaxN=0, MaxV=0, MaxK=0, MaxD=0, Mws="{}", Mwl="{}", Mid="{}")

ALLP = "{0, 1, 2, 3, 4, 5, 6, 7, 8, 9, 10, 11, 12, 13}"     # 8..13: fractional (dyadic) thresholds
ALLD = "{9, 0, 1, 2}"      # 9 = None


def G(dim, minn, maxn, maxv, maxk, mod, per, sel=0, big=False, profiles=ALLP, depths=ALLD):
    """Gen_DTree constants: datasets with Hash % mod = sel; per = combinations of (weights, hyper-parameters)
    per dataset picked by hash, 0 = the full product"""
    return dict(Dim=dim, MinN=minn, MaxN=maxn, MaxV=maxv, MaxK=maxk, Mod=mod, Sel=sel, PerData=per,
                Big="TRUE" if big else "FALSE", Profiles=profiles, Depths=depths)


# (name, generator constants, exhaustive?)
GEN = {
    "quick": [
        # complete sub-domain: n <= 3 points on 0..2, 2 classes, default / min-leaf-2 / min-split-2.5 profiles, depth None / 0 / 1
        ("d1-small", G(1, 1, 3, 2, 2, 1, 0, profiles="{1, 3, 8}", depths="{9, 0, 1}"), True),
        # fractional minima on n = 3..4: a node / side holds exactly floor(threshold) samples / weight
        ("d1-frac", G(1, 3, 4, 3, 2, 1, 2, profiles="{8, 9, 10, 11, 12, 13}", depths="{9, 0, 2}"), False),
        ("d1", G(1, 4, 6, 3, 3, 13, 2, depths="{9, 0, 1, 2, 3}"), False),   # 13034 datasets / 13, 2 combinations each
        ("d2", G(2, 4, 5, 2, 3, 60, 2, depths="{9, 0, 1, 2, 3}"), False),   # 59697 datasets / 60, 2 combinations each
        ("f32-neighbours", G(1, 2, 3, 2, 2, 1, 12, big=True, profiles="{1, 3}", depths="{9, 1, 2}"), False),
    ],
    "thorough": [
        ("d1-small", G(1, 1, 3, 2, 3, 1, 0, profiles="{0, 1, 2, 3, 4, 5, 6, 7}"), True),
        ("d1-frac", G(1, 2, 4, 3, 2, 1, 12, profiles="{8, 9, 10, 11, 12, 13}", depths="{9, 0, 1, 2}"), False),
        ("d1", G(1, 4, 5, 3, 3, 1, 5), False),
        ("d1-n6", G(1, 6, 6, 3, 3, 2, 2, depths="{9, 0, 1, 2, 3}"), False),
        ("d2", G(2, 2, 4, 2, 3, 1, 2), False),
        ("d2-n5", G(2, 5, 5, 2, 3, 6, 1, depths="{9, 0, 1, 2, 3}"), False),
        ("f32-neighbours", G(1, 2, 4, 3, 3, 1, 6, big=True, profiles="{1, 3, 5}", depths="{9, 1, 2, 3}"), False),
    ],
}

LAYOUTS = ["std", "forder", "tview", "revrows", "revcols", "everyrow2", "everycol2"]

PROFILES = [(8, 0, 10), (8, 4, 10), (12, 4, 10), (8, 8, 10), (8, 4, 200000), (4, 2, 10), (16, 6, 100000), (8, 10, 10),
            (20, 12, 10), (8, 4, 20000), (40, 16, 10), (8, 3, 1000),
            (10, 4, 10), (13, 5, 125000), (6, 6, 10), (14, 3, 250000), (9, 9, 10), (17, 4, 375000), (22, 11, 62500), (34, 7, 10)]


def random_cases(ctx, count):
    """seeded random cases of the same schema: n <= 40, <= 3 features on 0..6, <= 6 classes, dyadic weights"""
    out = []
    r = ctx.rng
    for _ in range(count):
        n = r.randint(6, 40)
        d = r.randint(1, 3)
        k = r.randint(2, 6)
        maxv = r.choice([1, 2, 3, 6])
        x = [[r.randint(0, maxv) for _ in range(d)] for _ in range(n)]
        if r.random() < 0.3:                       # a constant feature
            j = r.randrange(d)
            for row in x:
                row[j] = 1
        if r.random() < 0.5:                       # labels correlated with the first feature + noise
            y = [(row[0] + (r.randint(0, k - 1) if r.random() < 0.3 else 0)) % k for row in x]
        else:
            y = [r.randint(0, k - 1) for _ in range(n)]
        w4 = [] if r.random() < 0.4 else [r.choice([1, 2, 3, 4, 4, 6, 8]) for _ in range(n)]
        mws4, mwl4, mid6 = r.choice(PROFILES[1:])
        lt = r.choice(["usize", "string"] + (["bool"] if max(y) <= 1 else []))
        out.append({"kind": "tree", "inp": {
            "x": x, "y": y, "w4": w4, "d": d, "crit": r.choice(["gini", "entropy"]),
            "md": r.choice([-1, -1, 0, 1, 2, 3, 5]), "mws4": mws4, "mwl4": mwl4, "mid6": mid6,
            "lt": lt, "ft": r.choice(["f64", "f32"]),
            "lay": r.choice(LAYOUTS) if d >= 2 else "std",
            "scale": {"off": 0, "mul": 1, "pm": 1, "plo": -1, "phi": (2 * maxv + 1) if d < 3 else 3}}})
    return out


def mc_design(ctx, consts):
    """(A) as vlib.tlc_mc, but the vacuity test reads the LAST coverage report: runs longer than a minute
    print interim reports in which an action may not have been taken yet."""
    import re
    rc, lines = vlib.tlc(ctx, "DTree", {"constants": consts, "invariants": INVS}, extra=["-coverage", "1", "-nowarning"])
    if rc != 0:
        vlib.sys.stderr.write("\n".join(lines[-60:]) + "\n")
        raise vlib.ToolError("design model DTree: TLC rc=%d" % rc)
    gen, dist = vlib.parse_states(lines)
    if dist == 0:
        raise vlib.ToolError("design model DTree: no states")
    text = "\n".join(lines)
    for a in ACTIONS:
        ms = re.findall(r"<%s line [^>]*>: (\d+):(\d+)" % re.escape(a), text)
        if not ms or int(ms[-1][1]) == 0:
            raise vlib.ToolError("design model DTree: action %s never taken (vacuous)" % a)
    ctx.states += dist
    ctx.transitions += gen
    ctx.mc_runs.append({"module": "DTree", "distinct_states": dist, "states_generated": gen, "constants": consts})
    vlib.log("MC DTree: %d distinct states, %d generated" % (dist, gen))


def splits(trace):
    for ev in trace["ev"]:
        if ev.get("ev") == "tree":
            return sum(1 for nd in ev["nodes"] if not nd["leaf"])
    return 0


def key(case):
    i = case["inp"]
    return repr((i["x"], i["y"], i["w4"], i["crit"], i["md"], i["mws4"], i["mwl4"], i["mid6"], i["scale"]["off"]))


def generate(ctx):
    cases = []
    exhaustive = []
    for name, consts, exh in GEN[ctx.tier]:
        cs = vlib.tlc_gen(ctx, "Gen_DTree", {"constants": consts, "invariants": ["Emit"]}, tag="Gen_" + name.replace("-", "_"))
        for c in cs:
            c["inp"]["fam"] = name
        vlib.log("family %s: %d cases" % (name, len(cs)))
        if exh:
            exhaustive.append("%s (%d cases)" % (name, len(cs)))
        cases += cs
    if not ctx.quick:
        rc = random_cases(ctx, 2500)
        for c in rc:
            c["inp"]["fam"] = "random"
        cases += rc
    ctx.extra["exhaustive_families"] = exhaustive
    return cases


def run(ctx):
    binp = vlib.cargo_build("c14")
    # the ln table of the entropy criterion is self-checked (against the atanh series, ln(ab) = ln a + ln b and Elem.LnInt)
    vlib.tlc_mc(ctx, "MC_DTreeLn", {"invariants": LN_INVS}, workers=2)
    for consts in MODEL[ctx.tier]:
        mc_design(ctx, consts)
    cases = generate(ctx)
    vlib.number(cases)
    ctx.cases = len(cases)
    traces = vlib.run_harness(ctx, binp, cases)
    hooked = sum(1 for t in traces if t["ev"] and t["ev"][0].get("hook"))
    ctx.extra["cases_with_fit_time_masks"] = hooked
    if HOOK_REQUIRED and hooked == 0:
        raise vlib.ToolError("no tree.node hook events: the fit.reach clause is unbound")
    if hooked == 0:
        vlib.log("note: no tree.node hook events in this tree -> clause fit.reach skipped")
    nt = {}
    for t in traces:
        s = splits(t)
        if s >= 1:
            nt[key(t)] = s
    ctx.nontrivial = len(nt)
    ctx.extra["cases_with_two_or_more_splits"] = sum(1 for v in nt.values() if v >= 2)
    ctx.extra["cases_with_weights"] = sum(1 for t in traces if t["inp"]["w4"])
    # every boundary class of max_depth must occur on data whose root could be split (>= 2 labels, >= 2 distinct rows):
    # round 5 -- max_depth = Some(0) had silently dropped out of the quick grid when the families were re-tuned
    def splittable(t):
        return len(set(t["inp"]["y"])) >= 2 and len(set(map(tuple, t["inp"]["x"]))) >= 2
    per_depth = {m: sum(1 for t in traces if t["inp"]["md"] == m and splittable(t)) for m in (-1, 0, 1, 2)}
    ctx.extra["splittable_cases_per_max_depth"] = per_depth
    if min(per_depth.values()) == 0:
        raise vlib.ToolError("a max_depth class has no splittable case: %r" % per_depth)
    per_layout = {l: sum(1 for t in traces if t["inp"].get("lay") == l and splits(t) >= 1) for l in LAYOUTS}
    ctx.extra["split_cases_per_record_layout"] = per_layout
    if min(per_layout.values()) == 0:
        raise vlib.ToolError("a record layout has no case with a split: %r" % per_layout)
    vlib.sample(ctx, [t for t in traces if splits(t) >= 2][:1] + [t for t in traces if t["inp"]["w4"] and splits(t) == 1][:1])
    vlib.validate_with_findings(ctx, "Trace_DTree", traces, constants=TRACE_CONST, chunk=4000)
    ctx.exhaustive = False
    ctx.rule = ("cases = labelled lattice datasets (multisets of points, label vectors up to renaming) x weight pattern x criterion "
                "x max_depth x (min_weight_split, min_weight_leaf, min_impurity_decrease) profile, enumerated by TLC (Gen_DTree); "
                "families marked exhaustive are complete, the others are a fixed residue class of the product"
                " [+ seeded random n<=40, <=3 features, <=6 classes in the thorough tier]; "
                "non-trivial = the fitted tree has at least one split; distinct by (data, weights, hyper-parameters)")
    ctx.trusted = ["TLC + CommunityModules Json", "harness encodings (harness/src/bin/c14.rs: 2*threshold as exact integer, "
                   "round(1e6*decrease), f64 order keys, label embedding)", "DTreeLn.Ln6T table (self-checked by MC_DTreeLn)"]
    ctx.assumptions = ["decrease compared with slack 8e-6 (Gini, exact rational) / 1.2e-5 (entropy, ln table at 1e-6)",
                       "ties of the modal label, the chosen split and the side of a point exactly on a threshold are not prescribed",
                       "weights are positive multiples of 1/4; features are small integers (exact in f32/f64)"]
    return vlib.finish(ctx)


def replay(ctx, case):
    binp = vlib.cargo_build("c14")
    case = dict(case)
    case.pop("ev", None)
    case["inp"] = dict(case["inp"])
    case["inp"].setdefault("lay", "std")        # replay files recorded before round 3
    traces = vlib.run_harness(ctx, binp, [case])
    ctx.cases = 1
    vlib.validate_with_findings(ctx, "Trace_DTree", traces, constants=TRACE_CONST)
    return vlib.finish(ctx)
