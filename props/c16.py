"""C16 -- scalers and whiteners achieve their normalisation and act as fixed row-wise maps (DESIGN.md 8/C16).

(A) TLC model-checks specs/Scaling.tla: Fit ; Apply row by row with the exact image rounded to the grid; the
    invariants are consequences of the definitions (relation accepts the rounded exact image, rejects it moved by
    3 grid units, postconditions follow with the tolerances used, parameters independent of the row order).
(B) TLC (specs/Gen_Scaling.tla) enumerates the cases; the thorough tier adds seeded random cases of the same schema.
(C) harness/src/bin/c16.rs runs linfa-preprocessing on them; specs/Trace_Scaling.tla validates every event.
"""
import os
import vlib

MODEL = {"quick": dict(MaxN=3, MaxN2=2, NegV=2, PosV=3, Sorted="TRUE", SmallSh=17),
         "thorough": dict(MaxN=4, MaxN2=3, NegV=2, PosV=3, Sorted="TRUE", SmallSh=20)}
GEN = {"quick": dict(N1=4, N2=3, Thin2=8, PN=3, NW=4, ThinW=32, Thin3=0, ThinS=4, Shifts="{17, 20}"),
       "thorough": dict(N1=5, N2=4, Thin2=6, PN=4, NW=4, ThinW=8, Thin3=60, ThinS=1, Shifts="{14, 17, 20}")}
INVS = ["InvAccept", "InvTight", "InvPost", "InvPostTight", "InvOrder", "InvAffine"]
TRACE_CONST = dict(MaxN=0, MaxN2=0, NegV=0, PosV=0, Sorted="FALSE", SmallSh=0)

# (method, lo, hi, rd): the min-max range is lo/rd .. hi/rd
LIN_VARIANTS = [("std", 0, 1, 1), ("nomean", 0, 1, 1), ("nostd", 0, 1, 1), ("none", 0, 1, 1), ("maxabs", 0, 1, 1), ("minmax", 0, 1, 1),
                ("minmax", -1, 1, 1), ("minmax", 5, 10, 1), ("minmax", 2, 2, 1), ("minmax", -7, 3, 1)] + \
               [("minmax", lo2, lo2 + w2, 2) for lo2 in (-2, -1, 0, 2, 20) for w2 in (0, 1, 2, 4, 10)][::3]


def _deco(r, allow_f32):
    return {"ft": "f32" if allow_f32 and r.random() < 0.25 else "f64", "form": r.choice(["owned", "view"]),
            "tw": r.randint(0, 2), "wts": r.random() < 0.5}


def _column(r, n, small):
    """one column of n integers: lattice, constant, zero, offset or badly scaled (exactly representable values)"""
    t = r.random()
    if t < 0.12:
        return [0] * n
    if t < 0.24:
        v = r.randint(-9, 9) if small else r.choice([r.randint(-9, 9), 10000 + r.randint(0, 9), -25000])
        return [v] * n
    if small or t < 0.6:
        return [r.randint(-6, 6) for _ in range(n)]
    if t < 0.8:                                                # offset column, small spread
        o = r.choice([1000, 10000, -20000])
        return [o + r.randint(-3, 3) for _ in range(n)]
    s = r.choice([100, 1000])                                  # badly scaled column
    return [s * r.randint(-25, 25) for _ in range(n)]


def _sel(r, total):
    if r.random() < 0.1:
        return []
    return [r.randint(1, total) for _ in range(r.randint(1, min(total, 6)))]


def random_cases(ctx, count):
    """seeded random cases of the same schema: n <= 30, p <= 4, offset / badly scaled / constant / zero columns"""
    r = ctx.rng
    out = []
    for q in range(count):
        kind = r.choice(["lin", "lin", "lin", "norm", "wh", "wh"])
        small = r.random() < 0.3          # small lattice (then f32 is allowed as well)
        n = r.randint(1, 8) if small else r.randint(2, 30)
        p = r.randint(1, 4)
        m = r.randint(1, 3)
        d = _deco(r, small)
        if kind == "lin":
            cols = [_column(r, n, small) for _ in range(p)]
            X = [[cols[j][i] for j in range(p)] for i in range(n)]
            # unseen rows stay near the column (outputs must remain below 1e5 to be representable on the grid)
            Z = [[r.choice([cols[j][0], cols[j][r.randrange(n)] + r.randint(-12, 12), cols[j][0] + r.randint(-40, 40)]) for j in range(p)] for _ in range(m)]
            meth, lo, hi, rd = r.choice(LIN_VARIANTS)
            d.update({"ctor": r.choice(["named", "new", "setter"]), "meth": meth, "lo": lo, "hi": hi, "rd": rd, "p": p, "X": X, "Z": Z, "sel": _sel(r, n + m)})
        elif kind == "norm":
            big = not small and r.random() < 0.5
            nzv = lambda: r.choice([-1, 1]) * (r.randint(1, 30000) if big and r.random() < 0.4 else r.randint(1, 9))
            X = [[0 if r.random() < 0.15 else nzv() for _ in range(p)] for _ in range(n)]
            for row in X:                                          # zero rows only where placed deliberately
                if all(v == 0 for v in row):
                    row[0] = nzv()
            if r.random() < 0.2:                                   # an all-zero row in one case out of five
                X[r.randrange(n)] = [0] * p
            d.update({"meth": r.choice(["l1", "l2", "max"]), "p": p, "X": X, "Z": [], "sel": _sel(r, n)})
        else:
            # full rank is decided by the specification (rank-deficient cases are accepted without demands);
            # n >= p + 2 random lattice rows are full rank almost always
            p = r.randint(1, 2) if d["ft"] == "f32" else r.randint(1, 3)      # f32: at most two columns (conditioning)
            n = max(n, p + 2)
            scale = [1] * p if small or r.random() < 0.5 else [r.choice([1, 1, 100, 1000]) for _ in range(p)]
            off = [0] * p if small else [r.choice([0, 0, 100, 1000]) for _ in range(p)]
            rng_ = 3 if small else 6
            X = [[off[j] + scale[j] * r.randint(-rng_, rng_) for j in range(p)] for _ in range(n)]
            Z = [[off[j] + scale[j] * r.randint(-rng_ - 2, rng_ + 2) for j in range(p)] for _ in range(m)]
            d.update({"ctor": r.choice(["named", "setter"]), "meth": r.choice(["pca", "zca", "chol"]), "p": p, "X": X, "Z": Z, "sel": _sel(r, n + m)})
        # small units (exact division of a column by 2^sh): in three cases out of ten
        pp = d["p"]
        sh = [0] * pp
        if r.random() < 0.3:
            if kind == "lin":                       # columns are independent: any mixture of units
                sh = [r.choice([0, 14, 17, 20]) for _ in range(pp)]
            elif kind == "norm" or small or r.random() < 0.5 or any(abs(v) > 9 for row in d["X"] for v in row):
                sh = [r.choice([14, 17, 20])] * pp  # one common unit (exact rescaling; the only choice for f32 / wide data)
            else:                                   # one small-unit column next to unit columns (f64, lattice data)
                sh[r.randrange(pp)] = 14
        d["sh"] = sh
        # large column offsets (exactly representable; the case keeps the un-shifted integers): only where every
        # entry is a small lattice value and no small unit is used; linear scalers: shift-invariant variants, 2^30
        oe = [0] * pp
        lattice = all(abs(v) <= 9 for row in d["X"] + d.get("Z", []) for v in row)
        if lattice and not any(sh) and r.random() < 0.25:
            if kind == "lin" and d["meth"] in ("std", "nostd", "minmax") and d["ft"] == "f64":
                oe = [r.choice([0, 30]) for _ in range(pp)]
            elif kind == "wh" and pp <= 2:
                oe = [r.choice([0, 14, 17] if d["ft"] == "f32" else [0, 30, 40, 46]) for _ in range(pp)]
        d["oe"] = oe
        d["lay"] = r.choice(["c", "c", "f", "t", "revr", "revc", "step"])     # memory layout of the record matrices
        out.append({"kind": kind, "inp": d})
    return out


def nontrivial(case):
    """a case is non-trivial when it contains a degenerate or off-lattice situation named by the statement:
    a constant or all-zero column, an all-zero row, an offset / badly scaled / small-unit column, a non-standard memory layout of the records, f32, or a transformed
    batch that is not the training matrix in its original order (unseen rows / non-empty selection)."""
    i = case["inp"]
    if case["kind"] == "empty":
        return True
    X = i["X"]
    cols = list(zip(*X)) if X else []
    const = any(len(set(c)) == 1 for c in cols)
    zero_row = any(all(v == 0 for v in r) for r in X)
    wide = any(max(abs(v) for v in c) >= 100 for c in cols)
    return const or zero_row or wide or any(i.get("sh", [])) or any(i.get("oe", [])) or i.get("rd", 1) != 1 or i.get("lay", "c") != "c" or i["ft"] == "f32" or bool(i["sel"])


def run(ctx):
    binp = vlib.cargo_build("c16")
    if os.environ.get("VERIF_C16_SKIP_MC"):      # development only (mutant loops): the design model does not depend on the code
        vlib.log("design model skipped (VERIF_C16_SKIP_MC)")
    else:
        # vacuity: the POSTCONDITION PostDepth fails (tool error) unless Fit, every Apply and Done were taken; TLC's
        # periodic -coverage dumps are not used (the first dump of a long run precedes the deepest action)
        vlib.tlc_mc(ctx, "Scaling", {"spec": "Spec", "constants": MODEL[ctx.tier], "invariants": INVS, "postcondition": "PostDepth"})
    cases = vlib.tlc_gen(ctx, "Gen_Scaling", {"constants": GEN[ctx.tier], "invariants": ["Emit"]})
    ctx.exhaustive = False      # parts of the domain are hash samples; the completely enumerated sub-domains are listed below
    ctx.extra["exhaustive_subdomains"] = [
        "lin: every non-decreasing one-column matrix over -2..3 with n <= N1 x 9 scaler variants",
        "lin: every two-column matrix over {-1,0,2} with n = 2 x 9 scaler variants",
        "norm: every row over -2..3 with p <= PN x l1/l2/max",
        "wh: every non-constant non-decreasing one-column matrix over -2..3, n = 2..3 x PCA/ZCA/Cholesky",
        "empty: 9 estimators x p in 0..2 x f32/f64"]
    if not ctx.quick:
        cases += random_cases(ctx, 4000)
    vlib.number(cases)
    ctx.cases = len(cases)
    ctx.nontrivial = len({repr(sorted(c["inp"].items(), key=str)) + c["kind"] for c in cases if nontrivial(c)})
    traces = vlib.run_harness(ctx, binp, cases)
    pick = lambda k, m: [t for t in traces if t["kind"] == k and t["inp"]["meth"] == m and t["inp"].get("p") == 2][:1]
    vlib.sample(ctx, pick("lin", "std") + pick("wh", "zca") + pick("norm", "l2"))
    vlib.validate_with_findings(ctx, "Trace_Scaling", traces, constants=TRACE_CONST, chunk=4000)
    ctx.extra["cases_by_kind"] = {k: sum(1 for c in cases if c["kind"] == k) for k in ("lin", "norm", "wh", "empty")}
    ctx.rule = ("cases enumerated by TLC (Gen_Scaling): lin = every non-decreasing one-column matrix over -2..3 (n<=N1) + "
                "two-column matrices over {-1,0,2} (all for n=2, hash sample for n>=3) + offset/badly scaled/constant/zero column "
                "pairs, each x 6 scaler variants (min-max with 4 ranges); norm = every row over -2..3, p<=3, in batches of 6 x 3 norms; "
                "wh = full-rank one/two-column matrices (+ badly scaled) x PCA/ZCA/Cholesky; empty = 9 estimators x p in 0..2 x f32/f64; "
                "+ the same matrices with columns in small units 2^-14..2^-20; every case hands its record matrices over in one of six "
                "memory layouts (row-/column-major, transposed, reversed rows/columns, strided), all non-standard layouts enumerated "
                "explicitly for norm / linear / whitening samples "
                "[+ seeded random n<=30, p<=4 in the thorough tier]; each case transforms the training matrix, unseen rows, a "
                "reordered selection with repetition and a single row; non-trivial = constant/zero column, zero row, offset or "
                "badly scaled or small-unit column, non-standard record layout, f32, non-empty selection, or empty training data; "
                "distinct by (kind, input)")
    ctx.trusted = ["TLC + CommunityModules Json", "harness encoders: fixed point 1e-4 / 1e-6, non-finite list, row tags, exact unit changes by 2^sh, construction of the record layouts (harness/src/bin/c16.rs)",
                   "specs/ScalingBig.tla (exact big integers; exercised by the invariants of the design model)"]
    ctx.assumptions = ["inputs are integer matrices (exactly representable in f32/f64); outputs are compared on a 1e-4 grid with one unit of tolerance",
                       "f32 only on the small lattice |x| <= 9; offset / badly scaled columns (|x| <= 3e4) in f64",
                       "whitening is judged on full-rank data only (rank decided exactly by the specification)",
                       "the image of a constant column under min-max and of a zero column under max-abs is only required to be one fixed affine map",
                       "targets 1000+4r+c, weights r+0.5, names f<c>/t<c> identify the rows"]
    return vlib.finish(ctx)


def replay(ctx, case):
    binp = vlib.cargo_build("c16")
    traces = vlib.run_harness(ctx, binp, [case])
    ctx.cases = 1
    vlib.validate_with_findings(ctx, "Trace_Scaling", traces, constants=TRACE_CONST)
    return vlib.finish(ctx)
