"""X07 -- peripheral crates: linfa-datasets (blob generators, make_dataset, built-in loaders) and the linfa-tsne wrapper
(extension of the specification beyond the listed properties).

(A) TLC model-checks specs/Periph.tla: block layout well-defined, reproducibility as a relation between two sessions of
    the generator, the t-SNE parameter/data validity lattice (partition, monotone, closed-form boundary, errors before
    any work), loader table consistent; vacuity guards over the whole grid.
(B) TLC (specs/Gen_Periph.tla) enumerates the cases from the parameter grids (+ seeded random cases, thorough tier).
(C) harness/src/bin/x07.rs (t-SNE) and the auxiliary crate harness/x07aux (linfa-datasets is not a dependency of the
    shared harness crate) execute them against the real API; specs/Trace_Periph.tla validates every event.
"""
import os
import subprocess
import sys
import time
import vlib

MODEL = {"quick": dict(MaxK=3, MaxM=3, MaxF=2, MaxN=8, MaxD=3, MaxE=3, MaxP2=5, MaxIter=2),
         "thorough": dict(MaxK=4, MaxM=4, MaxF=3, MaxN=12, MaxD=4, MaxE=4, MaxP2=7, MaxIter=3)}
INVS = ["InvLayout", "InvBlobShape", "InvRepro", "InvSeedMatters", "InvAdvance", "InvErrEarly", "InvReach", "InvDone",
        "InvParamFirst", "InvLattice", "InvGridVacuity", "InvLoaders"]
ACTIONS = ["Generate", "TsCheck", "TsDataCheck", "TsInit", "TsIter", "TsFinish"]
def _set(xs):
    return "{" + ", ".join(str(x) for x in xs) + "}"


# TsP2 / TsTh2 are given shifted by +1 (cfg files cannot hold negative numbers): p2 in -1..4, th2 in -1..1 (quick)
GEN = {"quick": dict(KSet=_set([0, 1, 2, 3]), MSet=_set([0, 1, 3, 16]), FSet=_set([0, 1, 2]), DistIds=_set(range(1, 7)),
                     Combos=_set([1, 2, 3]),
                     TsN=_set(range(0, 9)), TsD=_set(range(0, 4)), TsE=_set([1, 2, 3]), TsP2=_set(range(0, 6)),
                     TsTh2=_set([0, 1, 2]), TsFt='{"f64"}', TsIter=5),
       "thorough": dict(KSet=_set([0, 1, 2, 3, 4]), MSet=_set([0, 1, 2, 3, 7, 16, 24]), FSet=_set([0, 1, 2, 3]),
                        DistIds=_set(range(1, 7)), Combos=_set(range(1, 7)),
                        TsN=_set(range(0, 12)), TsD=_set(range(0, 5)), TsE=_set([1, 2, 3, 4]), TsP2=_set(range(0, 8)),
                        TsTh2=_set([0, 1, 2, 3]), TsFt='{"f64", "f32"}', TsIter=12)}
TRACE_CONST = dict(MaxK=0, MaxM=0, MaxF=0, MaxN=0, MaxD=0, MaxE=0, MaxP2=0, MaxIter=0)
PERM = [1, 3, 0, 2, 5, 4]


def cargo_build_aux():
    """Build the X07 auxiliary crate harness/x07aux (depends on linfa-datasets, which harness/Cargo.toml lacks). It picks
    up harness/.cargo/config.toml (offline, --cfg linfa_verif, target-dir = harness/target) from its parent directory.
    With --repo the private harness copy made by vlib.harness_dir() is used and the path dependencies are rewritten
    here (vlib only rewrites the top-level Cargo.toml). Call AFTER vlib.cargo_build (which re-syncs the copy)."""
    hd = vlib.HARNESS if vlib.REPO == "/repo" else os.path.join(vlib.WORK, "harness-" + vlib.re.sub(r"[^A-Za-z0-9]", "_", vlib.REPO))
    ad = os.path.join(hd, "x07aux")
    if vlib.REPO != "/repo":
        ct = os.path.join(ad, "Cargo.toml")
        with open(ct) as f:
            txt = f.read()
        with open(ct, "w") as f:
            f.write(txt.replace('path = "/repo', 'path = "%s' % vlib.REPO))
    env = dict(os.environ)
    env["CARGO_NET_OFFLINE"] = "true"
    t = time.time()
    p = subprocess.run(["cargo", "build", "--release", "--offline"], cwd=ad, env=env,
                       stdout=subprocess.PIPE, stderr=subprocess.STDOUT, text=True)
    if p.returncode != 0:
        sys.stderr.write("\n".join(p.stdout.splitlines()[-80:]) + "\n")
        raise vlib.ToolError("cargo build failed for x07aux")
    vlib.log("built x07aux in %.1fs (repo %s)" % (time.time() - t, vlib.REPO))
    return os.path.join(hd, "target", "release", "x07aux")


LOADER_FILES = {"iris": (["iris.csv.gz"], 4), "winequality": (["winequality-red.csv.gz"], 11),
                "diabetes": (["diabetes_data.csv.gz", "diabetes_target.csv.gz"], 10),
                "linnerud": (["linnerud_exercise.csv.gz", "linnerud_physiological.csv.gz"], 3)}


def loader_file_rows(name):
    """The abstract input of a loader case: every numeric row of the data file(s) the loader embeds (read from the tree
    under test), as integers at S = 10^4, split into the first nf columns (records) and the rest (targets). A first line
    that does not parse as numbers is a header. No judgement here: the comparison is Trace_Periph!every_file_row_loaded."""
    import csv, gzip, io
    from decimal import Decimal, ROUND_HALF_EVEN
    files, nf = LOADER_FILES[name]
    rows = None
    for fn in files:
        with gzip.open(os.path.join(vlib.REPO, "datasets", "data", fn), "rt") as f:
            part = []
            for i, rec in enumerate(csv.reader(io.StringIO(f.read()))):
                if not rec:
                    continue
                try:
                    part.append([int((Decimal(x.strip()) * 10000).quantize(Decimal(1), rounding=ROUND_HALF_EVEN)) for x in rec])
                except Exception:
                    if i == 0:
                        continue        # header line
                    raise vlib.ToolError("unparsable line %d in %s" % (i + 1, fn))
        rows = part if rows is None else [a + b for a, b in zip(rows, part)] if len(rows) == len(part) else None
        if rows is None:
            raise vlib.ToolError("data files of %s differ in length" % name)
    return [r[:nf] for r in rows], [r[nf:] for r in rows]


def cent(k, f, r=None):
    """centroids >= 30 apart in every coordinate, never in ascending order (same construction as Gen_Periph!Cent for k <= 4)"""
    perm = PERM[:]
    if r is not None:
        r.shuffle(perm)
    return [[(30 * perm[b] - 45) * (1 if c % 2 == 0 else -1) + c + 1 for c in range(f)] for b in range(k)]


def random_cases(ctx, count):
    r = ctx.rng
    out = []
    for _ in range(count):
        t = r.random()
        if t < 0.45:
            k, f = r.randint(0, 6), r.randint(0, 4)
            m = r.choice([0, 1, 2, 3, 5, 8, 11, 16, 32, 40])
            while k * m * f > 400:
                m //= 2
            dist = r.choice([{"t": "lat", "s10": 0, "lo": 0, "hi": 0},
                             {"t": "lat", "s10": 0, "lo": r.randint(-3, 3), "hi": 0},
                             {"t": "lat", "s10": 0, "lo": -2, "hi": 2},
                             {"t": "std", "s10": 10, "lo": 0, "hi": 0},
                             {"t": "normal", "s10": r.choice([5, 8, 10, 15, 20]), "lo": 0, "hi": 0}])
            if dist["t"] == "lat" and dist["hi"] < dist["lo"]:
                dist["hi"] = dist["lo"]
            if dist["t"] == "lat" and dist["lo"] > dist["hi"]:
                dist["lo"] = dist["hi"]
            if dist["t"] == "lat" and dist["lo"] != -2:
                dist["hi"] = dist["lo"]
            seed = r.randint(0, 10 ** 6)
            out.append({"kind": "blobs", "inp": {"m": m, "f": f, "cent": cent(k, f, r), "dist": dist, "seed": seed,
                                                 "seed2": seed + r.randint(1, 1000), "clay": r.choice(["C", "F", "view"]),
                                                 "rngk": r.choice(["xoshiro", "small"])}})
        elif t < 0.55:
            lo, tl = r.randint(-5, 5), r.randint(20, 30)
            out.append({"kind": "mkds", "inp": {"rows": r.randint(0, 12), "feats": r.randint(0, 5), "tg": r.randint(0, 3),
                                                "flo": lo, "fhi": lo + r.randint(0, 4), "tlo": tl, "thi": tl + r.randint(0, 3)}})
        else:
            n, d = r.randint(0, 30), r.randint(0, 6)
            e = r.choice([1, 2, 2, 3, d, d + 1]) or 1
            # perplexity around the boundary 2 (n - 1) >= 3 p2 as well as far from it
            pb = (2 * (n - 1)) // 3
            p2 = r.choice([-1, 0, 1, 2, pb, pb + 1, pb - 1, r.randint(0, 12)])
            p2 = max(p2, -1)
            th2 = r.choice([-1, 0, 0, 1, 2])
            mi = r.choice([0, 3, 10, 25])
            pre = r.choice([-1, -1, 0, mi, mi + 2])
            X = [[r.randint(-6, 6) for _ in range(d)] for _ in range(n)]
            if n >= 2 and d >= 1 and all(row == X[0] for row in X):
                X[1][0] += 1
            seed = r.randint(0, 10 ** 6)
            out.append({"kind": "tsne", "inp": {"X": X, "d": d, "e": e, "p2": p2, "th2": th2, "mi": mi, "pre": pre,
                                                "seed": seed, "seed2": seed + r.randint(1, 1000), "ft": r.choice(["f64", "f32"])}})
    return out


def nontrivial(c):
    i = c["inp"]
    if c["kind"] == "blobs":
        return len(i["cent"]) >= 2 and i["m"] >= 1 and i["f"] >= 1
    if c["kind"] == "mkds":
        return i["rows"] >= 1 and i["feats"] + i["tg"] >= 1
    if c["kind"] == "tsne":
        return len(i["X"]) >= 1 and i["d"] >= 1
    return True


def execute(ctx, cases):
    binp = vlib.cargo_build("x07")
    auxp = cargo_build_aux()
    ts = [c for c in cases if c["kind"] == "tsne"]
    ds = [c for c in cases if c["kind"] != "tsne"]
    traces = []
    for (b, cs, tag) in ((binp, ts, "tsne"), (auxp, ds, "datasets")):
        if not cs:
            continue
        first = vlib.run_harness(ctx, b, cs, tag=tag)
        # run after run: a second process (another thread count, hence another interleaving and allocator history);
        # its first observation is appended to the case as event "rerun" and compared by the trace specification
        second = {t["id"]: t for t in vlib.run_harness(ctx, b, cs, tag=tag + "-rerun", env={"VH_THREADS": "3"})}
        for t in first:
            pos = {"tsne": 1, "blobs": 0, "loader": 0}.get(t["kind"])
            if pos is not None:
                ev2 = second[t["id"]]["ev"]
                src = dict(ev2[pos]) if len(ev2) > pos else {}
                for k in ("cells", "rec", "tgt"):
                    src.pop(k, None)
                r = {"rows": 0, "cols": 0, "dig": [0, 0], "ok": False, "err": "missing", "finite": False, "draws": 0,
                     "panicked": False}
                r.update(src)
                r["ev"] = "rerun"
                t["ev"].append(r)
        traces += first
    traces.sort(key=lambda t: t["id"])
    return traces


def run(ctx):
    vlib.tlc_mc(ctx, "Periph", {"constants": MODEL[ctx.tier], "invariants": INVS}, coverage_actions=ACTIONS)
    cases = vlib.tlc_gen(ctx, "Gen_Periph", {"constants": GEN[ctx.tier], "invariants": ["Emit"]})
    for c in cases:
        if c["kind"] == "loader":
            c["inp"]["rec"], c["inp"]["tgt"] = loader_file_rows(c["inp"]["name"])
    ctx.exhaustive = True
    if not ctx.quick:
        cases += random_cases(ctx, 3000)
    vlib.number(cases)
    ctx.cases = len(cases)
    ctx.nontrivial = len({repr(sorted((k, v) for k, v in c["inp"].items() if k not in ("rec", "tgt"))) + c["kind"]
                          for c in cases if nontrivial(c)})
    traces = execute(ctx, cases)
    vlib.sample(ctx, [t for t in traces if t["kind"] == "blobs" and len(t["inp"]["cent"]) == 2 and t["inp"]["m"] == 3
                      and t["inp"]["f"] == 2 and t["inp"]["dist"]["t"] == "std"][:1]
                + [t for t in traces if t["kind"] == "tsne" and len(t["inp"]["X"]) == 4 and t["inp"]["p2"] == 2
                   and t["inp"]["d"] == 2 and t["inp"]["e"] == 2 and t["inp"]["th2"] == 0][:1]
                + [{"id": t["id"], "kind": t["kind"], "inp": {"name": t["inp"]["name"], "rec": "(20 file rows)", "tgt": "(20 file rows)"},
                    "ev": [{k: v for k, v in e.items() if k not in ("rec", "tgt")} for e in t["ev"]]}
                   for t in traces if t["kind"] == "loader" and t["inp"]["name"] == "linnerud"][:1])
    vlib.validate_with_findings(ctx, "Trace_Periph", traces, constants=TRACE_CONST, chunk=3000)
    ctx.rule = ("cases = blobs/blobs_with_distribution over centroids x blob size x features x distribution (point mass, integer "
                "lattice, N(0,s^2)) x centroid memory layout x rng kind; make_dataset over shapes x supports; the four loaders; "
                "t-SNE over samples x features x embedding size x perplexity x theta (x float type) with the boundary "
                "n - 1 = 3 p inside the grid, plus preliminary_iter / zero-iteration / constant-data cases; all enumerated by TLC "
                "(Gen_Periph) [+ seeded random cases in the thorough tier]; non-trivial = at least two blobs with rows and "
                "features / a non-empty dataset / a non-empty t-SNE input; distinct by (kind, input)")
    ctx.trusted = ["TLC + CommunityModules Json", "harness encodings (harness/src/bin/x07.rs, harness/x07aux/src/main.rs)",
                   "the counting rng wrapper of x07.rs (clones share one draw counter)"]
    ctx.assumptions = ["statistical clauses use 7 sigma bounds (single cell, block mean) and a chi-square factor [0.1, 4] on blocks of "
                       ">= 32 cells: false-alarm probability < 1e-6 per run, and the runs are seeded",
                       "digest equality = bit identity up to a 2^-60 collision probability",
                       "which of several violated conditions t-SNE reports is not prescribed; "
                       "PreliminaryIterationsTooLarge (declared, never documented as a check) is accepted but not demanded",
                       "loader facts are those pinned by linfa-datasets' own documentation and unit tests, plus: a loader returns every "
                       "numeric row of its embedded data file (the orchestrator parses the gz/csv files of the tree under test into the "
                       "case input; TLC compares cell by cell at 10^-4)"]
    return vlib.finish(ctx)


def replay(ctx, case):
    case.setdefault("id", 1)
    traces = execute(ctx, [case])
    ctx.cases = 1
    vlib.validate_with_findings(ctx, "Trace_Periph", traces, constants=TRACE_CONST)
    return vlib.finish(ctx)
