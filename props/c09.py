"""C09 -- K-means assigns to the nearest centroid and each Lloyd step lowers the cost (DESIGN.md 8/C09)."""
import json
import vlib

# (A) design model
MODEL = {"quick": dict(MaxN1=3, Grid1=3, MaxN2=1, Grid2=1, MaxK=2, MaxB=3),
         "thorough": dict(MaxN1=4, Grid1=3, MaxN2=2, Grid2=1, MaxK=2, MaxB=3)}
INVS = ["InvShape", "InvBox", "InvNearest", "InvUpdate", "InvClusterCost", "InvCostMonotone", "InvFixedPoint",
        "InvFx", "InvDone", "InvShift"]
# (B) case generator
GEN = {"quick": dict(Grid1=4, MaxN1=4, Grid2=2, MaxN2=3, MaxK=3, MaxB=3, DeepN=0,
                     RGrid1=4, RMaxN1=4, RGrid2=2, RMaxN2=3, Runs=3, Seeds="{1}",
                     SparseLevel=1, SparseSeedMax=8),
       "thorough": dict(Grid1=5, MaxN1=5, Grid2=2, MaxN2=4, MaxK=3, MaxB=3, DeepN=4,
                        RGrid1=5, RMaxN1=5, RGrid2=2, RMaxN2=4, Runs=4, Seeds="{1, 2}",
                        SparseLevel=2, SparseSeedMax=24)}
# sampling of the enumerated product (the complete sub-domain n <= FULL_N is always kept)
FULL_N = {"quick": 2, "thorough": 3}
SAMPLE = {"quick": {("traj", 1): 1000, ("traj", 2): 1000, ("restart", 1): 300, ("restart", 2): 250},
          "thorough": {("traj", 1): 5000, ("traj", 2): 5000, ("restart", 1): 2500, ("restart", 2): 2500}}
TRACE_CONST = dict(MaxN1=0, Grid1=0, MaxN2=0, Grid2=0, MaxK=0, MaxB=0)
LAYOUTS = ["owned", "view", "revf", "revr", "revb", "forder", "row2", "col2"]
VARIANTS = [("f64", "l2", "owned"), ("f64", "l2", "view"), ("f64", "lp3", "owned"), ("f64", "l2", "owned"),
            ("f32", "l2", "owned"), ("f64", "l1", "owned"), ("f64", "linf", "view"), ("f32", "l1", "owned"),
            ("f64", "lp1", "owned"), ("f64", "lp2", "owned"), ("f64", "lp3", "owned"), ("f64", "l2", "owned")]


def select(ctx, cases):
    """all cases with n <= FULL_N, a seeded sample of the rest per (kind, features)"""
    keep, rest = [], {}
    for c in cases:
        i = c["inp"]
        if len(i["pts"]) <= FULL_N[ctx.tier] or i["f"] > 2:     # (f > 2: the sparse k-means|| family, always kept)
            keep.append(c)
        else:
            rest.setdefault((c["kind"], i["f"]), []).append(c)
    for key in sorted(rest):
        lst = rest[key]
        m = SAMPLE[ctx.tier].get(key, 0)
        if len(lst) > m:
            lst = ctx.rng.sample(lst, m)
        keep += lst
    return keep


def queries(f, g):
    if f == 1:
        return [[q] for q in range(-1, g + 2)]
    return [[a, b] for a in range(g + 1) for b in range(g + 1)] + [[-1, -1], [g + 1, 1]]


def random_cases(ctx, ntraj, nrestart):
    """larger seeded cases of the same schema (thorough tier). Bounds keep every product of the
    specification inside 32 bits: traj n <= 16 with budgets 1..2 (denominators <= 17^2), restart n <= 24."""
    r = ctx.rng
    out = []
    for _ in range(ntraj):
        f = r.choice([1, 2, 2])
        g = 6
        n = r.randint(5, 16)
        k = r.randint(1, 4)
        if r.random() < 0.5:   # blobs around k lattice centres, else a uniform cloud
            cen = [[r.randint(0, g) for _ in range(f)] for _ in range(k)]
            pts = [[min(g, max(0, c + r.randint(-1, 1))) for c in r.choice(cen)] for _ in range(n)]
        else:
            pts = [[r.randint(0, g) for _ in range(f)] for _ in range(n)]
        pts.sort()
        # distinct initial centroids: with coinciding ones every observation nearest to them is tied and the
        # search over tie choices grows like 2^n (coinciding centroids are covered by the enumerated small domain)
        c0 = []
        while len(c0) < k:
            cand = list(r.choice(pts)) if r.random() < 0.6 else [r.randint(0, g) for _ in range(f)]
            if cand not in c0:
                c0.append(cand)
        v = r.choice(VARIANTS)
        metric = "l1" if (f == 1 and v[1] == "linf") else v[1]
        if metric == "lp3":     # cubes of numerators over denominators up to 17^2 do not fit 32 bits
            metric = "lp1"
        out.append({"kind": "traj", "inp": {"ft": v[0], "metric": metric, "form": r.choice(LAYOUTS), "f": f, "pts": pts, "c0": c0,
                                            "qs": queries(f, g) if f == 1 else queries(f, g)[::3],
                                            "ms": [1, 2], "nruns": r.choice([1, 2, 3]), "hms": [],
                                            "tol": r.choice([[1, 1000000000], [1, 1000000000], [1, 2], [3, 2]]) if metric == "l2" else [1, 1000000000]}})
        if out[-1]["inp"]["tol"][1] < 1000:     # a tolerance the run meets after a few iterations: add budgets >= 2^32
            out[-1]["inp"]["hms"] = ["4294967296", "4294967297", "4294967298", "18446744073709551615"]
    for _ in range(nrestart):
        f = r.choice([1, 2, 2])
        g = 6
        n = r.randint(5, 24)
        k = r.randint(1, min(n, 4))
        if r.random() < 0.6:
            cen = [[r.randint(0, g) for _ in range(f)] for _ in range(k)]
            pts = [[min(g, max(0, c + r.randint(-1, 1))) for c in r.choice(cen)] for _ in range(n)]
        else:
            pts = [[r.randint(0, g) for _ in range(f)] for _ in range(n)]
        pts.sort()
        v = r.choice(VARIANTS)
        metric = "l1" if (f == 1 and v[1] == "linf") else v[1]
        init = r.choice(["random", "kmpp", "kmpara"])
        out.append({"kind": "restart", "inp": {"ft": v[0], "metric": metric, "form": r.choice(LAYOUTS), "f": f, "pts": pts, "k": k, "init": init,
                                               "seed": r.randint(1, 1000), "runs": 1 if init == "kmpara" else r.randint(2, 4),
                                               "maxits": r.choice([[1, 2, 3], [1, 2, 3], [2, 3, 4], [1, 3], [300]]),
                                               "qs": queries(f, g)[::3],
                                               "tol": [1, 1000000]}})
    return out


def nontrivial(case):
    """a case exercises ties / duplicates / empty clusters / non-trivial reassignment potential:
    duplicates among the points, or two centroids coincide, or fewer distinct points than clusters,
    or (traj) some point is equidistant (l1 on the lattice) from two initial centroids"""
    i = case["inp"]
    pts = [tuple(p) for p in i["pts"]]
    k = len(i["c0"]) if case["kind"] == "traj" else i["k"]
    if len(set(pts)) < len(pts) or len(set(pts)) < k:
        return True
    if case["kind"] == "traj":
        c0 = [tuple(c) for c in i["c0"]]
        if len(set(c0)) < len(c0):
            return True
        for p in pts:
            d = sorted(sum((a - b) ** 2 for a, b in zip(p, c)) for c in c0)
            if len(d) > 1 and d[0] == d[1]:
                return True
        return False
    return k > 1


def validate(ctx, traces):
    """acceptance pass without the Stuck action (fast); rejected cases are re-run with it for diagnostics"""
    ok, rejected = vlib.validate_with_findings(ctx, "Trace_KMeans", traces, constants=TRACE_CONST, chunk=4000,
                                               spec_next="TraceNextFast")
    if rejected:
        byid = {t["id"]: t for t in traces}
        devs = sorted({k["deviation"] for k in vlib.load_known(ctx.id)})
        _, fails = vlib.tlc_validate(ctx, "Trace_KMeans", [byid[i] for i in rejected[:200]], constants=TRACE_CONST,
                                     devs=devs, tag="Trace_KMeans_diag", spec_next="TraceNext")
        new = []
        for (cid, path, diag) in ctx.violations:
            d = fails.get(cid, diag)
            if d and d != diag:
                try:
                    with open(path) as f:
                        rep = json.load(f)
                    rep["diagnostics"] = d
                    with open(path, "w") as f:
                        json.dump(rep, f, indent=1)
                except OSError:
                    pass
            new.append((cid, path, d))
        ctx.violations = new
    return ok, rejected


def run(ctx):
    binp = vlib.cargo_build("c09")
    vlib.tlc_mc(ctx, "KMeans", {"constants": MODEL[ctx.tier], "invariants": INVS}, coverage_actions=["Assign", "Update"])
    allcases = vlib.tlc_gen(ctx, "Gen_KMeans", {"constants": GEN[ctx.tier], "invariants": ["Emit"]})
    cases = select(ctx, allcases)
    ctx.extra["enumerated_by_tlc"] = len(allcases)
    ctx.exhaustive = False
    if not ctx.quick:
        cases += random_cases(ctx, 2500, 1500)
    vlib.number(cases)
    ctx.cases = len(cases)
    ctx.nontrivial = len({json.dumps(c["inp"], sort_keys=True) + c["kind"] for c in cases if nontrivial(c)})
    traces = vlib.run_harness(ctx, binp, cases)
    vlib.sample(ctx, [t for t in traces if t["kind"] == "traj" and len(t["inp"]["pts"]) == 3 and len(t["inp"]["c0"]) == 2][:1]
                + [t for t in traces if t["kind"] == "restart" and len(t["inp"]["pts"]) == 3][:1])
    validate(ctx, traces)
    ctx.rule = ("cases = TLC-enumerated (Gen_KMeans) lattice datasets as sorted multisets x k x precomputed lattice centroids x "
                "(metric, f32/f64, owned/view) with budgets 1..3 [traj], and datasets x k x initialiser x seed with n_runs 1..R "
                "[restart]; complete for n <= %d, seeded sample above [+ seeded random n <= 24 in the thorough tier]; "
                "non-trivial = duplicate points, coinciding initial centroids, fewer distinct points than clusters, or a "
                "training point exactly equidistant from its two nearest initial centroids (traj); k > 1 (restart); "
                "distinct by (kind, input)" % FULL_N[ctx.tier])
    ctx.trusted = ["TLC + CommunityModules Json", "harness encoders fx/exact_int/key64 (harness/src/lib.rs)",
                   "harness/src/bin/c09.rs (feeds cases, logs results; shared-state RNG wrapper to re-run one restart)"]
    ctx.assumptions = [
        "exact arg-min (f64): two different reduced distances of a lattice point to centroids with denominators <= 343 "
        "differ by >= 7e-11, far above f64 rounding (1e-14), so the float comparison agrees with the exact one unless they tie",
        "f32: distances within 2e-4 of the minimum are treated as ties",
        "restart family: clauses evaluated on the logged centroids (1e-5) with interval arithmetic; a near-tie inside the interval is a tie",
        "Minkowski metrics LpDist(p) with p = 1, 2, 3 (f64): ordered exactly by sum |d|^p; the harness logs the p-th power "
        "of every returned distance; lp3 treats differences below 2e-5 as ties",
        "cost monotonicity asserted for the l2 metric only; k-means|| checked with one run only (its candidate sampling is scheduled by rayon)"]
    return vlib.finish(ctx)


def replay(ctx, case):
    binp = vlib.cargo_build("c09")
    case = dict(case)
    case.pop("ev", None)
    traces = vlib.run_harness(ctx, binp, [case])
    ctx.cases = 1
    validate(ctx, traces)
    return vlib.finish(ctx)
