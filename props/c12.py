"""C12 -- Logistic and Tweedie regression return stationary points; probabilities valid (DESIGN.md 8/C12).

Pipeline: (A) TLC model-checks the design models (label coding state machine + numeric consequences of the
relations in Logistic.tla, per-sample term identities in Glm.tla); (B) TLC enumerates lattice data sets /
configurations (Gen_Logistic, Gen_Glm) [+ seeded random cases of the same schema in the thorough tier];
(C) the harness fits the real models and records coefficients (scale 10^6), classes, probabilities, decisions,
predictions; TLC validates every trace against Trace_Logistic / Trace_Glm (interval-arithmetic enclosure of the
gradient of the documented objective, sigmoid / soft-max / inverse link values, order-key decisions)."""
import json
import vlib

# ---- tier constants -------------------------------------------------------------------------------
MC_CODING = {"quick": dict(MaxN=5, MaxL=3), "thorough": dict(MaxN=7, MaxL=4)}
MC_NUM = {"quick": dict(MaxN=3, MaxL=3), "thorough": dict(MaxN=4, MaxL=3)}
MC_GLM = {"quick": dict(MaxY=4), "thorough": dict(MaxY=6)}
FORMS_B = '{"p1", "x10", "p2alt", "p2sq", "p2c", "p2mix", "w30"}'
FORMS_M = '{"p1", "x10", "p2alt", "p2mix", "w30"}'
GEN_LOG = {
    "quick": dict(NBin="{3, 4}", NMul="{4, 6}", XMaxB=3, XMaxM=2, KMul="{2, 3}", FormsB=FORMS_B, FormsM=FORMS_M,
                  ThinBD=2, ThinB=43, ThinMD=11, ThinM=53, BigSet="{30}", ThinS=5, ThinP=3, Mix="FALSE"),
    "thorough": dict(NBin="{3, 4, 5}", NMul="{4, 5, 6}", XMaxB=3, XMaxM=2, KMul="{2, 3, 4}", FormsB=FORMS_B,
                     FormsM=FORMS_M, ThinBD=3, ThinB=97, ThinMD=13, ThinM=173, BigSet="{30, 60}", ThinS=6, ThinP=2, Mix="TRUE"),
}
GEN_GLM = {
    "quick": dict(NGlm="{4}", XMax=2, YSet="{1, 2, 4}", ThinD=1, Thin=331, UnitCodes="{1, 2, 3, 4}", ThinU=307),
    "thorough": dict(NGlm="{3, 4, 5}", XMax=3, YSet="{1, 2, 3, 4}", ThinD=41, Thin=127, UnitCodes="{1, 2, 3, 4}", ThinU=211),
}
CODING_INVS = ["InvBinCoding", "InvBinErrors", "InvMultiCoding"]
NUM_INVS = ["InvNumOrigin", "InvNumFlip", "InvNumSoftmax"]
GLM_INVS = ["InvTermAtZero", "InvTermIdentity", "InvTermSign", "InvOriginLog", "InvUnits"]
TRACE_LOG_CONST = dict(MaxN=0, MaxL=1)
TRACE_GLM_CONST = dict(MaxY=1)


NAME_POOL = {"usize": ["0", "1", "2", "3", "7", "12", "40", "5"], "string": ["ant", "bee", "Cat", "dog", "eel", "fox", "Zed", "b"],
             "bool": ["false", "true"]}
THRS = [{"k": "default"}, {"k": "frac", "a": 1, "b": 4}, {"k": "frac", "a": 3, "b": 4}, {"k": "frac", "a": 1, "b": 2}]


def base_rows(p):
    """origin and unit vectors: p + 1 affinely independent rows"""
    return [[0] * p] + [[1 if j == k else 0 for j in range(p)] for k in range(p)]


def random_cases(ctx, count):
    """seeded random cases of the Gen_Logistic / Gen_Glm schema with larger n, p <= 3, 2..6 classes, signed features and
    mixed feature scales. alpha = 0 only on data that is non-separable by construction: every class occurs at each of
    p + 1 affinely independent rows (so a weak separator of any class pair vanishes identically)."""
    r = ctx.rng
    out = []
    for _ in range(count):
        kind = r.choice(["bin", "multi", "multi", "glm"])
        p = r.choice([1, 2, 2, 3])
        an = r.choice([0, 1, 5, 10, 20])
        icpt = r.random() < 0.6
        te = r.choice([4, 6, 6])
        if kind == "glm":
            p = r.choice([1, 2])
            n = r.randint(5, 10)
            pn, pd = r.choice([(0, 1), (1, 1), (3, 2), (2, 1), (3, 1)])
            link = r.choice(["identity", "log", "logit", "auto"])
            eff = ("identity" if pn <= 0 else "log") if link == "auto" else link
            if eff == "identity" and pn > 0:
                icpt = True
            x = [[r.randint(0, 3) for _ in range(p)] for _ in range(n)]
            if len({tuple(v) for v in x}) < 2:
                x[0] = [3] * p
            if eff == "logit":
                y, yd = [r.randint(1, 3) for _ in range(n)], 4
            elif eff == "identity" and pn > 0:
                y, yd = [r.randint(2, 5) for _ in range(n)], 1
            else:
                y, yd = [r.randint(1, 4) for _ in range(n)], 1
            out.append({"kind": "glm", "inp": {"x": x, "p": p, "q": [[0] * p, [2] + [1] * (p - 1)], "y": y, "yd": yd, "pn": pn,
                                              "pd": pd, "link": link, "an": r.choice([0, 1, 10]), "ad": 10, "icpt": icpt, "ue": 0,
                                              "maxit": 2000, "te": te}})
            continue
        K = 2 if kind == "bin" else r.randint(2, 6)
        scale = [1] * p                           # at most one feature on a 10x scale (conditioning: see report, round 2)
        if r.random() < 0.5:
            scale[r.randrange(p)] = 10
        rows, ys = [], []
        if an == 0:
            for b in base_rows(p):
                for k in range(K):
                    rows.append(list(b))
                    ys.append(k)
        extra = r.randint(2, 6) if an == 0 else r.randint(max(K + 1, 4), 12)
        for _ in range(extra):
            rows.append([r.randint(-3, 3) for _ in range(p)])
            ys.append(r.randrange(K))
        for k in range(K):                       # every class present
            if k not in ys:
                ys[r.randrange(len(ys))] = k
        if len(set(ys)) < K:
            continue
        order = list(range(len(rows)))
        r.shuffle(order)
        x = [[rows[i][j] * scale[j] for j in range(p)] for i in order]
        y = [ys[i] for i in order]
        lt = r.choice(["usize", "string"] + (["bool"] if K == 2 else []))
        names = r.sample(NAME_POOL[lt], K)
        q = [[0] * p, [1000] * p, [-1000] * p, [1000 * (-1) ** j for j in range(p)]]
        qv = [[sg * m] * p for m in (100, 10000) for sg in (1, -1)] + [[r.choice([-1, 1]) * r.choice([100, 1000, 10000]) for _ in range(p)]]
        inp = {"x": x, "y": y, "p": p, "q": q, "qv": qv, "lt": lt, "names": names, "an": an, "ad": 10, "icpt": icpt, "maxit": 20000, "te": te}
        rows_init = p + (1 if icpt else 0)
        if kind == "bin":
            off = r.choice([0, 0, -20, 20])
            inp["init"] = [off + r.randint(-15, 15) for _ in range(rows_init)] if r.random() < 0.4 else []
            inp["thrs"] = THRS + [{"k": "row", "r": r.randint(1, len(x) + len(q))}]
        else:
            # user-supplied start: small table, optionally with a common offset across the classes (-2 / +2)
            off = r.choice([0, -20, 20])
            inp["init"] = [[off + r.randint(-10, 10) for _ in range(K)] for _ in range(rows_init)] if r.random() < 0.45 else []
        out.append({"kind": kind, "inp": inp})
    return out


def is_glm(case):
    return case["kind"] == "glm"


def nontrivial(case):
    """non-trivial = the fitted optimum is not forced by symmetry: at least two distinct feature rows and, for the
    classifiers, classes that are not balanced at every distinct row."""
    i = case["inp"]
    rows = {tuple(r) for r in i["x"]}
    if len(rows) < 2:
        return False
    if is_glm(case):
        return len(set(i["y"])) > 1
    per = {}
    for r, y in zip(i["x"], i["y"]):
        per.setdefault(tuple(r), []).append(y)
    return any(len(set(v)) == 1 or v.count(v[0]) * len(set(v)) != len(v) for v in per.values())


def count_notes(ctx):
    """cases for which Trace_Glm printed a NOTE (non-convex configuration, returned point outside the modelled range)"""
    import glob, os
    ids = set()
    for f in glob.glob(os.path.join(ctx.work, "Trace_Glm*.out")):
        with open(f, errors="replace") as fh:
            for l in fh:
                if l.startswith('<<"NOTE"'):
                    ids.add(l.split(",")[1].strip())
    return len(ids)


def validate(ctx, traces):
    logi = [t for t in traces if not is_glm(t)]
    glm = [t for t in traces if is_glm(t)]
    rejected = []
    if logi:
        _, rej = vlib.validate_with_findings(ctx, "Trace_Logistic", logi, constants=TRACE_LOG_CONST, chunk=3000,
                                             tag="Trace_Logistic")
        rejected += rej
    if glm:
        _, rej = vlib.validate_with_findings(ctx, "Trace_Glm", glm, constants=TRACE_GLM_CONST, chunk=3000,
                                             tag="Trace_Glm")
        rejected += rej
    return rejected


def run(ctx):
    binp = vlib.cargo_build("c12")
    vlib.mc_elem(ctx)
    vlib.tlc_mc(ctx, "Logistic", {"constants": MC_CODING[ctx.tier], "invariants": CODING_INVS},
                coverage_actions=["Scan", "Code", "MultiCode"])
    vlib.tlc_mc(ctx, "Logistic", {"init": "NumInit", "next": "NumNext", "constants": MC_NUM[ctx.tier],
                                  "invariants": NUM_INVS})
    vlib.tlc_mc(ctx, "Glm", {"constants": MC_GLM[ctx.tier], "invariants": GLM_INVS})
    cases = vlib.tlc_gen(ctx, "Gen_Logistic", {"constants": GEN_LOG[ctx.tier], "invariants": ["Emit"]})
    cases += vlib.tlc_gen(ctx, "Gen_Glm", {"constants": GEN_GLM[ctx.tier], "invariants": ["Emit"]})
    ctx.extra["tlc_enumerated_cases"] = len(cases)
    if not ctx.quick:
        cases += random_cases(ctx, 2000)
    vlib.number(cases)
    ctx.cases = len(cases)
    ctx.nontrivial = len({json.dumps(c["inp"], sort_keys=True) + c["kind"] for c in cases if nontrivial(c)})
    traces = vlib.run_harness(ctx, binp, cases, timeout=1500)
    vlib.sample(ctx, [t for t in traces if t["kind"] == "bin"][:1] + [t for t in traces if t["kind"] == "glm"][:1]
                + [t for t in traces if t["kind"] == "multi"][:1])
    # GLM fits that ended without a model (argmin error / time-out); Trace_Glm accepts this only for the non-convex
    # configurations, everywhere else it is a violation
    ctx.extra["glm_fit_no_result"] = sum(1 for t in traces if is_glm(t) and t["ev"] and t["ev"][0].get("ev") == "fit"
                                         and not t["ev"][0].get("ok") and t["ev"][0].get("err") in ("TIMEOUT", "Argmin"))
    validate(ctx, traces)
    ctx.extra["out_of_modelled_range_no_verdict"] = count_notes(ctx)
    ctx.rule = ("cases = lattice data sets enumerated by TLC (sorted 1-D designs x all surjective label / target vectors, "
                "lifted to 1-2 features incl. x10 scaling, constant column, mixed scales; two sample orders; alpha in "
                "{0,1/10,1}; +-intercept; label type/naming/initial parameters; GLM power x link x alpha x intercept), thinned by a "
                "hash modulus; alpha=0 only on non-separable data (exact criterion in Gen_Logistic.NonSep); "
                "non-trivial = >= 2 distinct rows and classes not balanced at every row (classifiers) / non-constant target (GLM); "
                "distinct by (kind, input)")
    ctx.trusted = ["TLC + CommunityModules Json", "Elem tables (self-checked by MC_Elem in this run)",
                   "harness encoders fx/key64 (harness/src/bin/c12.rs)"]
    ctx.assumptions = ["coefficients are observed at scale 10^-6 and probabilities at 10^-4; every numeric clause is an interval "
                       "enclosure (quantisation + table error) plus an allowance of 6e-4 on gradient components",
                       "solver tolerance 1e-6, iteration budget 2000; a fit that does not return within 4 CPU-seconds is recorded "
                       "as TIMEOUT (termination itself is not part of the property)",
                       "|coefficients| <= 50 in the modelled range"]
    return vlib.finish(ctx)


def replay(ctx, case):
    binp = vlib.cargo_build("c12")
    vlib.mc_elem(ctx)
    traces = vlib.run_harness(ctx, binp, [case])
    ctx.cases = 1
    validate(ctx, traces)
    return vlib.finish(ctx)
