"""Shared orchestration library for the linfa TLA+ verification checks.

Pipeline per property (DESIGN.md section 3):
  (A) tlc_mc      : TLC model-checks the bounded design specification
  (B) tlc_gen     : TLC enumerates cases (inputs / programs / histories) as JSON
  (C) run_harness : the Rust harness (built from /repo's working tree, hooks on) executes the
                    cases against the real linfa API and records integer-only JSON traces
      tlc_validate: TLC validates every recorded trace against Trace_<X>.tla
Exit codes: 0 held, 1 violation (VIOLATION line + replay file), 2 tool error / timeout.
"""
import json, os, subprocess, sys, time, hashlib, shutil, re, random

VERIF = os.path.dirname(os.path.dirname(os.path.abspath(__file__)))
SPECS = os.path.join(VERIF, "specs")
HARNESS = os.path.join(VERIF, "harness")
WORK = os.path.join(VERIF, "work")
EVID = os.path.join(VERIF, "evidence")
REPLAYS = os.path.join(VERIF, "replays")
JAR = "/opt/veriftools/tla/tla2tools.jar:/opt/veriftools/tla/CommunityModules-deps.jar"


class ToolError(Exception):
    pass


def log(*a):
    print("[check]", *a, file=sys.stderr, flush=True)


class Ctx:
    def __init__(self, pid, tier, seed):
        self.id = pid
        self.tier = tier
        self.seed = seed
        self.t0 = time.time()
        self.work = os.path.join(WORK, "%s-%s%s" % (pid, tier, "" if REPO == "/repo" else "-" + re.sub(r"[^A-Za-z0-9]", "_", REPO)))
        shutil.rmtree(self.work, ignore_errors=True)
        os.makedirs(self.work, exist_ok=True)
        self.states = 0
        self.transitions = 0
        self.mc_runs = []
        self.cases = 0
        self.validated = 0
        self.nontrivial = 0
        self.samples = []
        self.violations = []  # (caseid, replay path, diag)
        self.known = {}  # finding name -> count
        self.rule = ""
        self.assumptions = []
        self.trusted = []
        self.extra = {}
        self.exhaustive = False
        self.rng = random.Random(seed)

    @property
    def quick(self):
        return self.tier == "quick"


# --------------------------------------------------------------------------------------------
# cargo

REPO = os.environ.get("VERIF_REPO", "/repo").rstrip("/")


def harness_dir():
    """/verif/harness builds against /repo. For experiments on another tree (a scratch git worktree
    with a candidate fix or a seeded mutant: env VERIF_REPO=<dir>) a private copy of the harness crate
    with rewritten path dependencies and its own target dir is used, so /repo is never touched."""
    if REPO == "/repo":
        return HARNESS
    tag = re.sub(r"[^A-Za-z0-9]", "_", REPO)
    hd = os.path.join(WORK, "harness-" + tag)
    os.makedirs(hd, exist_ok=True)
    subprocess.run(["rsync", "-a", "--delete", "--exclude", "target", HARNESS + "/", hd + "/"], check=True)
    ct = os.path.join(hd, "Cargo.toml")
    with open(ct) as f:
        txt = f.read()
    with open(ct, "w") as f:
        f.write(txt.replace('path = "/repo', 'path = "%s' % REPO))
    return hd


def cargo_build(binname):
    """Rebuild the harness binary from the repository's current working tree (path dependencies), hooks on."""
    env = dict(os.environ)
    env["CARGO_NET_OFFLINE"] = "true"
    t = time.time()
    hd = harness_dir()
    p = subprocess.run(["cargo", "build", "--release", "--offline", "--bin", binname],
                       cwd=hd, env=env, stdout=subprocess.PIPE, stderr=subprocess.STDOUT, text=True)
    if p.returncode != 0:
        errs = [l for l in p.stdout.splitlines()]
        sys.stderr.write("\n".join(errs[-80:]) + "\n")
        raise ToolError("cargo build failed for %s" % binname)
    log("built %s in %.1fs (repo %s)" % (binname, time.time() - t, REPO))
    return os.path.join(hd, "target", "release", binname)


# --------------------------------------------------------------------------------------------
# TLC

def _cfg_text(cfg):
    """cfg: dict with keys spec|init/next, invariants, constants (dict name->tla text), constraint,
    properties, check_deadlock, postcondition, view."""
    out = []
    if "spec" in cfg:
        out.append("SPECIFICATION %s" % cfg["spec"])
    else:
        out.append("INIT %s" % cfg.get("init", "Init"))
        out.append("NEXT %s" % cfg.get("next", "Next"))
    for k, v in cfg.get("constants", {}).items():
        out.append("CONSTANT %s = %s" % (k, v))
    for inv in cfg.get("invariants", []):
        out.append("INVARIANT %s" % inv)
    for p in cfg.get("properties", []):
        out.append("PROPERTY %s" % p)
    for c in cfg.get("constraints", []):
        out.append("CONSTRAINT %s" % c)
    for c in cfg.get("action_constraints", []):
        out.append("ACTION_CONSTRAINT %s" % c)
    if "view" in cfg:
        out.append("VIEW %s" % cfg["view"])
    if "postcondition" in cfg:
        out.append("POSTCONDITION %s" % cfg["postcondition"])
    out.append("CHECK_DEADLOCK %s" % ("TRUE" if cfg.get("check_deadlock") else "FALSE"))
    return "\n".join(out) + "\n"


def tla_set(xs):
    return "{" + ", ".join(tla_val(x) for x in xs) + "}"


def tla_val(x):
    if isinstance(x, bool):
        return "TRUE" if x else "FALSE"
    if isinstance(x, int):
        return str(x)
    if isinstance(x, str):
        return '"%s"' % x
    if isinstance(x, (list, tuple)):
        return "<<" + ", ".join(tla_val(y) for y in x) + ">>"
    if isinstance(x, (set, frozenset)):
        return tla_set(sorted(x))
    raise ValueError(x)


_tlc_counter = [0]


def tlc(ctx, module, cfg, env=None, workers=8, timeout=1500, xmx="6g", simulate=None, extra=None,
        deque=False, tag=None):
    """Run TLC on specs/<module>.tla with a generated cfg. Returns (rc, stdout-lines)."""
    _tlc_counter[0] += 1
    tag = tag or "%s_%d" % (module, _tlc_counter[0])
    cfgp = os.path.join(ctx.work, tag + ".cfg")
    with open(cfgp, "w") as f:
        f.write(_cfg_text(cfg))
    meta = os.path.join(ctx.work, "meta_" + tag)
    shutil.rmtree(meta, ignore_errors=True)
    jopts = ["-XX:+UseParallelGC", "-XX:ParallelGCThreads=4", "-Xss1g", "-Xmx" + xmx]
    if deque:
        jopts.append("-Dtlc2.tool.queue.IStateQueue=StateDeque")
    cmd = ["timeout", str(timeout), "java"] + jopts + ["-cp", JAR, "tlc2.TLC",
           "-workers", str(workers), "-metadir", meta, "-cleanup", "-noGenerateSpecTE",
           "-config", cfgp]
    if simulate:
        cmd += ["-simulate", simulate]
    if extra:
        cmd += extra
    cmd.append(os.path.join(SPECS, module + ".tla"))
    e = dict(os.environ)
    e.pop("JAVA_TOOL_OPTIONS", None)
    if env:
        e.update(env)
    t = time.time()
    outp = os.path.join(ctx.work, tag + ".out")
    with open(outp, "w") as fo:
        p = subprocess.run(cmd, cwd=ctx.work, env=e, stdout=fo, stderr=subprocess.STDOUT)
    shutil.rmtree(meta, ignore_errors=True)
    with open(outp, errors="replace") as f:
        lines = f.read().splitlines()
    log("tlc %s rc=%d %.1fs (%d lines)" % (tag, p.returncode, time.time() - t, len(lines)))
    if p.returncode == 124:
        raise ToolError("TLC timeout on %s" % tag)
    return p.returncode, lines


_RE_STATES = re.compile(r"^(\d+) states generated, (\d+) distinct states found, (\d+) states left on queue")


def parse_states(lines):
    gen = dist = 0
    for l in lines:
        m = _RE_STATES.match(l)
        if m:
            gen, dist = int(m.group(1)), int(m.group(2))
    return gen, dist


def tlc_mc(ctx, module, cfg, workers=8, timeout=1500, coverage_actions=None, **kw):
    """(A) model-check the design spec; invariant violation in the design = tool error (the design
    spec is wrong or the bounded model is), never a property verdict about the code."""
    extra = ["-coverage", "1"] if coverage_actions else None
    kw.pop("extra_opts", None)
    rc, lines = tlc(ctx, module, cfg, workers=workers, timeout=timeout, extra=(extra or []) + ["-nowarning"], **kw)
    if rc != 0:
        sys.stderr.write("\n".join(lines[-60:]) + "\n")
        raise ToolError("design model %s: TLC rc=%d" % (module, rc))
    gen, dist = parse_states(lines)
    if dist == 0:
        raise ToolError("design model %s: no states" % module)
    if coverage_actions:
        # vacuity: every named action must have been taken at least once
        text = "\n".join(lines)
        for a in coverage_actions:
            ms = re.findall(r"<%s line [^>]*>: (\d+):(\d+)" % re.escape(a), text)
            # TLC prints interim coverage on long runs: the last report is the final one
            if not ms or int(ms[-1][1]) == 0:
                raise ToolError("design model %s: action %s never taken (vacuous)" % (module, a))
    ctx.states += dist
    ctx.transitions += gen
    ctx.mc_runs.append({"module": module, "distinct_states": dist, "states_generated": gen,
                        "constants": cfg.get("constants", {})})
    log("MC %s: %d distinct states, %d generated" % (module, dist, gen))
    return gen, dist


def _unquote(line):
    """TLC prints strings via PrintT as "...." with escapes."""
    line = line.strip()
    if line.startswith('"') and line.endswith('"'):
        try:
            return json.loads(line)
        except Exception:
            return line[1:-1].replace('\\"', '"').replace("\\\\", "\\")
    return line


def tlc_gen(ctx, module, cfg, workers=8, timeout=1500, prefix="CASE ", **kw):
    """(B) TLC as case generator: collects every `PrintT("CASE " \\o ToJson(..))` line."""
    rc, lines = tlc(ctx, module, cfg, workers=workers, timeout=timeout, **kw)
    if rc != 0:
        sys.stderr.write("\n".join(lines[-60:]) + "\n")
        raise ToolError("generator %s: TLC rc=%d" % (module, rc))
    cases = []
    seen = set()
    for l in lines:
        if not l.startswith('"' + prefix):
            continue
        s = _unquote(l)[len(prefix):]
        if s in seen:
            continue
        seen.add(s)
        cases.append(json.loads(s))
    gen, dist = parse_states(lines)
    ctx.states += dist
    ctx.transitions += gen
    cases.sort(key=lambda c: json.dumps(c, sort_keys=True))
    log("GEN %s: %d cases" % (module, len(cases)))
    return cases


def number(cases, start=1):
    for i, c in enumerate(cases):
        c["id"] = start + i
    return cases


def write_ndjson(path, objs):
    with open(path, "w") as f:
        for o in objs:
            f.write(json.dumps(o, separators=(",", ":")) + "\n")


def read_ndjson(path):
    out = []
    with open(path) as f:
        for l in f:
            l = l.strip()
            if l:
                out.append(json.loads(l))
    return out


def run_harness(ctx, binpath, cases, timeout=1500, env=None, tag="cases", args=None):
    """(C) execute the cases against the real code; returns the recorded traces (one per case)."""
    inp = os.path.join(ctx.work, tag + ".ndjson")
    outp = os.path.join(ctx.work, tag + ".trace.ndjson")
    write_ndjson(inp, cases)
    e = dict(os.environ)
    e["VERIF_SEED"] = str(ctx.seed)
    e["RUST_BACKTRACE"] = "0"
    if env:
        e.update(env)
    t = time.time()
    p = subprocess.run(["timeout", str(timeout), binpath, inp, outp] + (args or []), env=e,
                       stdout=subprocess.PIPE, stderr=subprocess.PIPE, text=True)
    if p.returncode != 0:
        sys.stderr.write(p.stderr[-4000:])
        raise ToolError("harness %s rc=%d" % (os.path.basename(binpath), p.returncode))
    traces = read_ndjson(outp)
    log("harness %s: %d cases -> %d traces in %.1fs" % (os.path.basename(binpath), len(cases), len(traces), time.time() - t))
    if len(traces) != len(cases):
        raise ToolError("harness returned %d traces for %d cases" % (len(traces), len(cases)))
    return traces


_RE_OK = re.compile(r'^<<"OK", (-?\d+)(?:, (.*))?>>$')
_RE_FAIL = re.compile(r'^<<"FAIL", (-?\d+), (.*)>>$')


def tlc_validate(ctx, module, traces, constants=None, workers=8, timeout=1500, chunk=None, tag=None,
                 devs=None, spec_init="TraceInit", spec_next="TraceNext", deque=False):
    """Validate traces (cases = independent initial states). The trace spec prints <<"OK", id>> when
    some behaviour of the specification explains every event of case id, and (best effort)
    <<"FAIL", id, ...>> diagnostics when it gets stuck. Returns (ok_ids, fails: id -> [diag])."""
    ok = set()
    okinfo = {}
    fails = {}
    if not traces:
        return ok, fails
    chunk = chunk or len(traces)
    for ci in range(0, len(traces), chunk):
        part = traces[ci:ci + chunk]
        t = (tag or module) + "_%d" % (ci // chunk)
        path = os.path.join(ctx.work, t + ".trace.ndjson")
        write_ndjson(path, part)
        consts = dict(constants or {})
        if devs is not None:
            consts["Devs"] = tla_set(sorted(devs))
        cfg = {"init": spec_init, "next": spec_next, "constants": consts}
        rc, lines = tlc(ctx, module, cfg, env={"TRACEFILE": path}, workers=workers, timeout=timeout,
                        tag=t, deque=deque)
        if rc != 0:
            sys.stderr.write("\n".join(l for l in lines[-80:] if not l.startswith("<<")) + "\n")
            raise ToolError("trace validation %s: TLC rc=%d" % (module, rc))
        gen, dist = parse_states(lines)
        ctx.states += dist
        ctx.transitions += gen
        for l in lines:
            m = _RE_OK.match(l)
            if m:
                ok.add(int(m.group(1)))
                if m.group(2):
                    okinfo.setdefault(int(m.group(1)), set()).add(m.group(2))
                continue
            m = _RE_FAIL.match(l)
            if m:
                fails.setdefault(int(m.group(1)), [])
                if len(fails[int(m.group(1))]) < 12 and m.group(2) not in fails[int(m.group(1))]:
                    fails[int(m.group(1))].append(m.group(2))
    ctx.okinfo = okinfo
    return ok, fails


# --------------------------------------------------------------------------------------------
# findings / verdict

def load_known(pid):
    p = os.path.join(VERIF, "known_findings.json")
    if not os.path.exists(p):
        return []
    with open(p) as f:
        d = json.load(f)
    fs = list(d.get("findings", []))
    extra = os.environ.get("VERIF_FINDINGS_EXTRA")   # development only: proposed entries under review
    if extra and os.path.exists(extra):
        with open(extra) as f:
            fs += json.load(f)
    return [k for k in fs if k["property"] == pid]


def validate_with_findings(ctx, module, traces, nontrivial=None, **kw):
    """Two-pass validation. Pass 1: strict specification (Devs = {}). Pass 2 (only for the cases
    rejected by pass 1): the specification extended with the *named deviations* listed for this
    property in known_findings.json -- each deviation models precisely what the defective code
    computes, so any other wrong behaviour is still rejected and reported as VIOLATION."""
    known = load_known(ctx.id)
    devnames = sorted({k["deviation"] for k in known})
    ok, fails = tlc_validate(ctx, module, traces, devs=[], **kw)
    ids = [t["id"] for t in traces]
    rejected = [i for i in ids if i not in ok]
    ctx.validated += len(ok)
    byid = {t["id"]: t for t in traces}
    if rejected and devnames:
        rtr = [byid[i] for i in rejected]
        kw2 = dict(kw)
        kw2["tag"] = (kw.get("tag") or module) + "_dev"
        ok2, fails2 = tlc_validate(ctx, module, rtr, devs=devnames, **kw2)
        info = getattr(ctx, "okinfo", {})
        for i in ok2:
            used = info.get(i)
            names = set()
            if used:
                for u in used:
                    names.update(re.findall(r'"([^"]+)"', u))
            names = names & set(devnames) or set(devnames if len(devnames) == 1 else ["?"])
            for nme in names:
                ctx.known[nme] = ctx.known.get(nme, 0) + 1
        rejected = [i for i in rejected if i not in ok2]
        for i in rejected:
            if i in fails2:
                fails[i] = fails2[i]
    for i in rejected:
        record_violation(ctx, byid[i], fails.get(i, []))
    return ok, rejected


def record_violation(ctx, trace, diag):
    rdir = REPLAYS if REPO == "/repo" else os.path.join(ctx.work, "replays")
    os.makedirs(rdir, exist_ok=True)
    path = os.path.join(rdir, "%s-%s-%s.json" % (ctx.id, ctx.tier, trace.get("id")))
    if len(ctx.violations) < 200:
        with open(path, "w") as f:
            json.dump({"property": ctx.id, "tier": ctx.tier, "seed": ctx.seed, "diagnostics": diag,
                       "case": trace}, f, indent=1)
    ctx.violations.append((trace.get("id"), path, diag))


def sample(ctx, objs, n=3):
    """record a few actual cases/traces in the evidence file (compact JSON text)"""
    for o in objs[:n]:
        s = json.dumps(o, separators=(",", ":"))
        if len(s) > 1500:
            s = s[:1500] + "...(truncated)"
        ctx.samples.append(s)


ELEM_INVS = ["ExpZero", "ExpStep", "ExpNegFunctional", "ExpPosFunctional", "ExpInverse", "ExpMonotone", "LnOne",
             "LnProduct", "LnMonotone", "LnMantMonotone", "LnMantEnd", "LnExp", "LnFxInt", "LnExpNeg", "SigmoidSym",
             "SigmoidDef", "SigmoidMono", "SigmoidZero", "InterpBetween"]


def mc_elem(ctx):
    """Self-check of the exp/ln/sigmoid tables used by Elem.tla (tables are never trusted)."""
    return tlc_mc(ctx, "MC_Elem", {"invariants": ELEM_INVS}, workers=4, extra_opts=None)


def finish(ctx, level="model_checking"):
    known = load_known(ctx.id)
    kn = {k["deviation"]: k for k in known}
    for name, cnt in sorted(ctx.known.items()):
        what = kn.get(name, {}).get("what", name)
        print("KNOWN-FINDING: property=%s %s [deviation %s, %d case(s) this run]" % (ctx.id, what, name, cnt))
    cov = {
        "states": ctx.states,
        "transitions": ctx.transitions,
        "traces_validated_against_impl": ctx.validated,
        "samples": ctx.samples[:6] or ["(none)"],
        "evaluations": ctx.cases,
        "distinct_nontrivial": ctx.nontrivial,
        "rule": ctx.rule,
        "exhaustive": bool(ctx.exhaustive),
        "design_model_runs": ctx.mc_runs,
        "known_finding_cases": ctx.known,
        "trusted_base": ctx.trusted,
    }
    cov.update(ctx.extra)
    ev = {
        "property_id": ctx.id,
        "tier": ctx.tier,
        "seed": ctx.seed,
        "level": level,
        "coverage": cov,
        "assumptions": ctx.assumptions,
        "wall_s": round(time.time() - ctx.t0, 2),
        "violations": len(ctx.violations),
    }
    evdir = EVID if REPO == "/repo" else ctx.work   # experiments on scratch trees never touch evidence/
    os.makedirs(evdir, exist_ok=True)
    with open(os.path.join(evdir, ctx.id + ".json"), "w") as f:
        json.dump(ev, f, indent=1)
    if ctx.violations:
        for (cid, path, diag) in ctx.violations[:10]:
            print("VIOLATION property=%s replay=%s" % (ctx.id, path))
            if diag:
                print("  first diagnostics:", "; ".join(diag[:4]))
        if len(ctx.violations) > 10:
            print("  (%d more rejected cases)" % (len(ctx.violations) - 10))
        return 1
    print("OK property=%s tier=%s cases=%d validated=%d states=%d wall=%.1fs" % (
        ctx.id, ctx.tier, ctx.cases, ctx.validated, ctx.states, time.time() - ctx.t0))
    return 0
