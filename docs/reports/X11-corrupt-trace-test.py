import sys, json, copy, os
sys.path.insert(0, "/verif/lib"); sys.path.insert(0, "/verif/props")
import vlib, x11
traces = vlib.read_ndjson("/verif/work/X11-quick/cases.trace.ndjson")
def ok(t):
    s = x11.stats(t)
    i = t["inp"]
    return s and s["two_features"] and s["splits"] >= 3 and i["lg"] and i["names"] and s["bfs_differs_from_preorder"]
base = [t for t in traces if ok(t)][0]
print("base case", base["id"], json.dumps(base["inp"]))
def ev(t, name): return [e for e in t["ev"] if e["ev"] == name][0]
muts = []
def m(name, f):
    t = copy.deepcopy(base); f(t); muts.append((name, t))
def swap(l, a, b): l[a], l[b] = l[b], l[a]
tr = ev(base, "tree")
internal = [k for k, nd in enumerate(tr["nodes"]) if not nd["leaf"]]
leaves = [k for k, nd in enumerate(tr["nodes"]) if nd["leaf"]]
m("iter: swap two entries", lambda t: swap(ev(t, "tree")["iter"], 1, 2))
m("iter: drop last", lambda t: ev(t, "tree")["iter"].pop())
m("iter: unknown address", lambda t: ev(t, "tree")["iter"][1].update(known=False))
m("iter2len", lambda t: ev(t, "tree").update(iter2len=ev(t, "tree")["iter2len"] + 1))
m("features: reversed", lambda t: ev(t, "tree")["features"].reverse())
m("features: duplicate", lambda t: ev(t, "tree")["features"].append(ev(t, "tree")["features"][0]))
m("maxdepth + 1", lambda t: ev(t, "tree").update(maxdepth=ev(t, "tree")["maxdepth"] + 1))
m("nleaves - 1", lambda t: ev(t, "tree").update(nleaves=ev(t, "tree")["nleaves"] - 1))
m("rootdepth 1", lambda t: ev(t, "tree").update(rootdepth=1))
m("node: nch 1", lambda t: ev(t, "tree")["nodes"][0].update(nch=1))
m("node: predn on leaf", lambda t: ev(t, "tree")["nodes"][leaves[0]].update(predn=True))
m("node: prediction on internal", lambda t: ev(t, "tree")["nodes"][internal[0]].update(predn=False))
m("node: hasname on leaf", lambda t: ev(t, "tree")["nodes"][leaves[0]].update(hasname=True))
m("node: wrong name", lambda t: ev(t, "tree")["nodes"][internal[0]].update(namec=ev(t, "tree")["nodes"][internal[0]]["namec"] + 1))
m("mean: + 40 units", lambda t: ev(t, "imp")["mean"]["v6"].__setitem__(0, ev(t, "imp")["mean"]["v6"][0] + 40))
m("mean: nan flag", lambda t: ev(t, "imp")["mean"]["nan"].__setitem__(0, True))
m("rel: shift 200 units between features", lambda t: (ev(t, "imp")["rel"]["v6"].__setitem__(0, ev(t, "imp")["rel"]["v6"][0] + 200), ev(t, "imp")["rel"]["v6"].__setitem__(1, ev(t, "imp")["rel"]["v6"][1] - 200)))
m("rel: + 10 units (sum)", lambda t: ev(t, "imp")["rel"]["v6"].__setitem__(0, ev(t, "imp")["rel"]["v6"][0] + 10))
m("rel: negative key", lambda t: ev(t, "imp")["rel"]["k"].__setitem__(0, [1, 0, 0]))
m("imp: not same as rel", lambda t: ev(t, "imp").update(same=False))
m("imp: length", lambda t: ev(t, "imp")["imp"]["v6"].append(0))
for which in ("dflt", "var"):
    tk = ev(base, "tikz")[which]
    ti = [k for k, nd in enumerate(tk["nodes"]) if not nd["leaf"]]
    tl = [k for k, nd in enumerate(tk["nodes"]) if nd["leaf"]]
    m(which + ": thr100 + 1", lambda t, w=which, k=ti[0]: ev(t, "tikz")[w]["nodes"][k].update(thr100=ev(t, "tikz")[w]["nodes"][k]["thr100"] + 1))
    m(which + ": imp100 + 2", lambda t, w=which, k=ti[0]: ev(t, "tikz")[w]["nodes"][k].update(imp100=ev(t, "tikz")[w]["nodes"][k]["imp100"] + 2))
    m(which + ": feat", lambda t, w=which, k=ti[0]: ev(t, "tikz")[w]["nodes"][k].update(feat=1 - ev(t, "tikz")[w]["nodes"][k]["feat"]))
    m(which + ": leaf label", lambda t, w=which, k=tl[0]: ev(t, "tikz")[w]["nodes"][k].update(lab=ev(t, "tikz")[w]["nodes"][k]["lab"] + 1))
    m(which + ": node path", lambda t, w=which, k=tl[-1]: ev(t, "tikz")[w]["nodes"][k].update(path=ev(t, "tikz")[w]["nodes"][k]["path"] + [0]))
    m(which + ": node dropped", lambda t, w=which: ev(t, "tikz")[w]["nodes"].pop())
    m(which + ": doc count", lambda t, w=which: ev(t, "tikz")[w].update(doc=1 - ev(t, "tikz")[w]["doc"]))
    m(which + ": enddoc", lambda t, w=which: ev(t, "tikz")[w].update(enddoc=1 - ev(t, "tikz")[w]["enddoc"]))
    m(which + ": two forests", lambda t, w=which: ev(t, "tikz")[w].update(nbf=2))
    m(which + ": haslegend flipped", lambda t, w=which: ev(t, "tikz")[w].update(haslegend=not ev(t, "tikz")[w]["haslegend"]))
    m(which + ": not parsed", lambda t, w=which: ev(t, "tikz")[w].update(parsed=False))
    m(which + ": restclean", lambda t, w=which: ev(t, "tikz")[w].update(restclean=False))
    m(which + ": frame order", lambda t, w=which: ev(t, "tikz")[w].update(order=False))
m("legend: entry dropped", lambda t: ev(t, "tikz")["var"]["legend"].pop())
m("legend: entry duplicated", lambda t: ev(t, "tikz")["var"]["legend"].append(ev(t, "tikz")["var"]["legend"][0]))
m("legend: wrong name", lambda t: ev(t, "tikz")["var"]["legend"][0].update(namec=ev(t, "tikz")["var"]["legend"][0]["namec"] + 1))
out = [copy.deepcopy(base)]
out[0]["id"] = 1
for k, (name, t) in enumerate(muts):
    t["id"] = 100 + k
    out.append(t)
ctx = vlib.Ctx("X11corrupt", "quick", 1)
okids, fails = vlib.tlc_validate(ctx, "Trace_DTreeIntro", out, constants=x11.TRACE_CONST, devs=[])
print("untouched accepted:", 1 in okids)
bad = 0
for k, (name, t) in enumerate(muts):
    acc = (100 + k) in okids
    bad += acc
    print("%-45s %s %s" % (name, "ACCEPTED (unbound!)" if acc else "rejected", fails.get(100 + k, "")))
print("unbound fields:", bad)
import shutil; shutil.rmtree(ctx.work, ignore_errors=True)
