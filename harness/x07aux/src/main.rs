//! X07 harness, part 2: `linfa-datasets` (generators of datasets/src/generate.rs and the built-in loaders).
//! Separate crate because linfa-datasets is not a dependency of /verif/harness (see Cargo.toml here).
//!
//! kind "blobs": inp = {m, f, cent: k x f integer matrix, dist: {t: "std" | "normal" | "lat", s10, lo, hi},
//!                      seed, seed2, rngk: "xoshiro" | "small", clay: "C" | "F" | "view"}
//!    gen     : `blobs` (t = "std") or `blobs_with_distribution` with Normal(0, s10/10) / the integer lattice
//!              distribution Lat(lo..=hi) (lo = hi: a sigma-0 distribution)   {rows, cols, finite, cells (S = 1000),
//!              exact (every cell an integer), dig (digest of the bit patterns)}
//!    again   : the same call with a freshly seeded rng (same seed)           {rows, cols, dig}
//!    cont    : a second call on the rng the first call left behind          {rows, cols, dig}
//!    other   : the same call with the rng seeded by seed2                    {rows, cols, dig}
//!    special : t = "std" only: blobs_with_distribution(.., StandardNormal, ..) with the same seed {rows, cols, dig}
//! kind "mkds": inp = {rows, feats, tg, flo, fhi, tlo, thi}: make_dataset with Lat(flo..=fhi) / Lat(tlo..=thi)
//!    mk      : {ns, nf, nt, rdim, tdim, rec, tgt (exact integers), exact}   (twice: make_dataset has no rng argument)
//! kind "loader": inp = {name}
//!    load    : {ns, nf, nt, fnames, tnames, finite, tmin, tmax (S = 100), fmean (S = 1000), tmean (S = 100),
//!               labels [[label, count]] (integer-valued single targets), rec, tgt (every cell, S = 10^4), dig}   (twice)
//!              (the case input carries the numeric rows of the data files, parsed by the orchestrator, for comparison)
//! The harness never judges; a panic inside a call becomes {"ev": "panic", ...}.
use linfa::dataset::{AsTargets, DatasetBase, Records};
use linfa_datasets::generate::{blobs, blobs_with_distribution, make_dataset};
use ndarray::{s, Array2, ArrayBase, ArrayView2, Axis, Data, Ix2, ShapeBuilder};
use ndarray_rand::rand_distr::{Distribution, Normal, StandardNormal};
use rand::rngs::SmallRng;
use rand::{Rng, SeedableRng};
use rand_xoshiro::Xoshiro256Plus;
use vh::serde_json::{json, Value};
use vh::*;

/// uniform on the integers lo..=hi (as f64); lo = hi is a point mass
#[derive(Clone, Copy)]
struct Lat {
    lo: i64,
    hi: i64,
}
impl Distribution<f64> for Lat {
    fn sample<R: Rng + ?Sized>(&self, rng: &mut R) -> f64 {
        if self.lo == self.hi {
            self.lo as f64
        } else {
            rng.gen_range(self.lo..=self.hi) as f64
        }
    }
}

fn dig2(a: &Array2<f64>) -> Value {
    let v: Vec<f64> = a.iter().map(|x| if *x == 0.0 { 0.0 } else { *x }).collect();
    digest_f64(v.iter())
}

fn cells(a: &Array2<f64>, s: f64) -> (Value, bool, bool) {
    let fin = a.iter().all(|v| v.is_finite());
    let exact = fin && a.iter().all(|v| v.fract() == 0.0);
    let m = Value::Array(
        a.outer_iter()
            .map(|r| Value::Array(r.iter().map(|v| if v.is_finite() && (v * s).abs() < 1e9 { json!((v * s).round() as i64) } else { json!(0) }).collect()))
            .collect(),
    );
    (m, fin, exact)
}

fn gen_blobs<D: Data<Elem = f64>, R: Rng>(inp: &Value, cent: &ArrayBase<D, Ix2>, rng: &mut R, force_with: bool) -> Array2<f64> {
    let m = geti(inp, "m") as usize;
    let d = &inp["dist"];
    match gets(d, "t") {
        "std" if !force_with => blobs(m, cent, rng),
        "std" => blobs_with_distribution(m, cent, StandardNormal, rng),
        "normal" => blobs_with_distribution(m, cent, Normal::new(0.0, geti(d, "s10") as f64 / 10.0).unwrap(), rng),
        _ => blobs_with_distribution(m, cent, Lat { lo: geti(d, "lo"), hi: geti(d, "hi") }, rng),
    }
}

fn blobs_case<R: Rng + SeedableRng>(inp: &Value) -> Vec<Value> {
    let f = geti(inp, "f") as usize;
    let rows = imat(&inp["cent"]);
    let k = rows.len();
    let c0 = to_array2(&rows, f);
    // the centroid matrix in the requested memory layout (the argument is `&ArrayBase<impl Data, Ix2>`)
    let mut cf: Array2<f64> = Array2::zeros((k, f).f());
    cf.assign(&c0);
    let mut wide: Array2<f64> = Array2::from_elem((2 * k + 1, 2 * f + 1), 777.0);
    for i in 0..k {
        for j in 0..f {
            wide[[2 * i, 2 * j]] = c0[[i, j]];
        }
    }
    let view: ArrayView2<f64> = wide.slice(s![0..2 * k;2, 0..2 * f;2]);
    let seed = geti(inp, "seed") as u64;
    let seed2 = geti(inp, "seed2") as u64;
    let clay = gets(inp, "clay").to_string();
    let call = |rng: &mut R, fw: bool| -> Array2<f64> {
        match clay.as_str() {
            "F" => gen_blobs(inp, &cf, rng, fw),
            "view" => gen_blobs(inp, &view, rng, fw),
            _ => gen_blobs(inp, &c0, rng, fw),
        }
    };
    let mut ev = Vec::new();
    let mut rng = R::seed_from_u64(seed);
    match guarded(|| call(&mut rng, false)) {
        Ok(a) => {
            let (cs, fin, exact) = cells(&a, 1000.0);
            ev.push(json!({"ev": "gen", "rows": a.nrows(), "cols": a.ncols(), "finite": fin, "exact": exact, "cells": cs, "dig": dig2(&a)}));
        }
        Err(m) => {
            ev.push(panic_event("gen", &m));
            return ev;
        }
    }
    let brief = |name: &str, r: Result<Array2<f64>, String>| -> Value {
        match r {
            Ok(a) => json!({"ev": name, "rows": a.nrows(), "cols": a.ncols(), "dig": dig2(&a)}),
            Err(m) => panic_event(name, &m),
        }
    };
    ev.push(brief("cont", guarded(|| call(&mut rng, false))));
    let mut r2 = R::seed_from_u64(seed);
    ev.push(brief("again", guarded(|| call(&mut r2, false))));
    let mut r3 = R::seed_from_u64(seed2);
    ev.push(brief("other", guarded(|| call(&mut r3, false))));
    if gets(&inp["dist"], "t") == "std" {
        let mut r4 = R::seed_from_u64(seed);
        ev.push(brief("special", guarded(|| call(&mut r4, true))));
    }
    ev
}

fn mkds_case(inp: &Value) -> Vec<Value> {
    let (rows, feats, tg) = (geti(inp, "rows") as usize, geti(inp, "feats") as usize, geti(inp, "tg") as usize);
    let fd = Lat { lo: geti(inp, "flo"), hi: geti(inp, "fhi") };
    let td = Lat { lo: geti(inp, "tlo"), hi: geti(inp, "thi") };
    let mut ev = Vec::new();
    for _ in 0..2 {
        match guarded(|| make_dataset(rows, feats, tg, fd, td)) {
            Ok(ds) => {
                let (rc, rfin, rex) = cells(ds.records(), 1.0);
                let t2: Array2<f64> = ds.targets().to_owned();
                let (tc, tfin, tex) = cells(&t2, 1.0);
                ev.push(json!({"ev": "mk", "ns": ds.nsamples(), "nf": ds.nfeatures(), "nt": ds.ntargets(),
                               "rdim": [ds.records().nrows(), ds.records().ncols()], "tdim": [t2.nrows(), t2.ncols()],
                               "rec": rc, "tgt": tc, "exact": rfin && rex && tfin && tex}));
            }
            Err(m) => ev.push(panic_event("mk", &m)),
        }
    }
    ev
}

fn load_event<T>(ds: &DatasetBase<Array2<f64>, T>, tv: Vec<f64>, integer_labels: bool) -> Value
where
    T: AsTargets,
{
    // tv: the targets, row-major, as f64 (the caller converts; ntargets columns)
    let rec = ds.records();
    let fin = rec.iter().all(|v| v.is_finite()) && tv.iter().all(|v| v.is_finite());
    let tmin = tv.iter().cloned().fold(f64::INFINITY, f64::min);
    let tmax = tv.iter().cloned().fold(f64::NEG_INFINITY, f64::max);
    let fmean: Vec<f64> = rec.mean_axis(Axis(0)).map(|m| m.to_vec()).unwrap_or_default();
    let nt = ds.ntargets();
    let ns = ds.nsamples();
    let mut tmean = vec![0.0; nt];
    if ns > 0 && tv.len() == ns * nt {
        for r in 0..ns {
            for c in 0..nt {
                tmean[c] += tv[r * nt + c] / ns as f64;
            }
        }
    }
    let mut labels: Vec<(i64, i64)> = Vec::new();
    if integer_labels {
        for v in &tv {
            let l = *v as i64;
            match labels.iter_mut().find(|x| x.0 == l) {
                Some(x) => x.1 += 1,
                None => labels.push((l, 1)),
            }
        }
        labels.sort();
    }
    let mut all: Vec<f64> = rec.iter().cloned().collect();
    all.extend(tv.iter().cloned());
    // every cell at S = 10^4 (records, and the targets as ns x nt rows) for the comparison with the data file
    let (rcells, _, _) = cells(rec, 1e4);
    let tcells: Vec<Value> = if nt > 0 && tv.len() == ns * nt {
        tv.chunks(nt).map(|r| fxv(r.iter(), 1e4)).collect()
    } else {
        Vec::new()
    };
    json!({"ev": "load", "ns": ns, "nf": ds.nfeatures(), "nt": nt,
           "rdim": [rec.nrows(), rec.ncols()], "tlen": tv.len(),
           "fnames": ds.feature_names(), "tnames": ds.target_names(),
           "finite": fin, "tmin": fx(tmin, 100.0), "tmax": fx(tmax, 100.0),
           "fmean": fxv(fmean.iter(), 1000.0), "tmean": fxv(tmean.iter(), 100.0),
           "labels": labels.iter().map(|(l, c)| json!([l, c])).collect::<Vec<_>>(),
           "rec": rcells, "tgt": tcells,
           "dig": digest_f64(all.iter())})
}

fn loader_case(inp: &Value) -> Vec<Value> {
    let name = gets(inp, "name").to_string();
    let mut ev = Vec::new();
    for _ in 0..2 {
        let r = guarded(|| match name.as_str() {
            "iris" => {
                let ds = linfa_datasets::iris();
                let tv = ds.targets().iter().map(|v| *v as f64).collect();
                load_event(&ds, tv, true)
            }
            "winequality" => {
                let ds = linfa_datasets::winequality();
                let tv = ds.targets().iter().map(|v| *v as f64).collect();
                load_event(&ds, tv, true)
            }
            "diabetes" => {
                let ds = linfa_datasets::diabetes();
                let tv = ds.targets().iter().cloned().collect();
                load_event(&ds, tv, false)
            }
            "linnerud" => {
                let ds = linfa_datasets::linnerud();
                let tv = ds.targets().outer_iter().flat_map(|r| r.to_vec()).collect();
                load_event(&ds, tv, false)
            }
            _ => json!({"ev": "unknown_loader"}),
        });
        match r {
            Ok(e) => ev.push(e),
            Err(m) => ev.push(panic_event("load", &m)),
        }
    }
    ev
}

fn main() {
    run_cases(|c| {
        let inp = &c["inp"];
        match gets(c, "kind") {
            "blobs" => {
                if gets(inp, "rngk") == "small" {
                    blobs_case::<SmallRng>(inp)
                } else {
                    blobs_case::<Xoshiro256Plus>(inp)
                }
            }
            "mkds" => mkds_case(inp),
            "loader" => loader_case(inp),
            k => vec![json!({"ev": "unknown_kind", "kind": k})],
        }
    });
}
