//! Shared helpers of the conformance harness: case/trace I/O (integer-only JSON, one case per
//! line), fixed-point and order-key encodings of floats, digests, panic capture.
//! The harness never judges: it feeds inputs to the real linfa API and records what comes back.
use serde_json::{json, Map, Value};
use std::io::{BufRead, BufReader, BufWriter, Write};
use std::panic::{catch_unwind, AssertUnwindSafe};

pub use serde_json;

/// Read ndjson cases from argv[1].
pub fn read_cases() -> Vec<Value> {
    let path = std::env::args().nth(1).expect("usage: <bin> cases.ndjson traces.ndjson");
    let f = std::fs::File::open(&path).expect("open cases");
    BufReader::new(f)
        .lines()
        .map(|l| l.unwrap())
        .filter(|l| !l.trim().is_empty())
        .map(|l| serde_json::from_str(&l).expect("case json"))
        .collect()
}

pub fn write_traces(traces: &[Value]) {
    let path = std::env::args().nth(2).expect("usage: <bin> cases.ndjson traces.ndjson");
    let f = std::fs::File::create(&path).expect("create traces");
    let mut w = BufWriter::new(f);
    for t in traces {
        serde_json::to_writer(&mut w, t).unwrap();
        w.write_all(b"\n").unwrap();
    }
    w.flush().unwrap();
}

pub fn seed() -> u64 {
    std::env::var("VERIF_SEED").ok().and_then(|s| s.parse().ok()).unwrap_or(1)
}

/// Run `f` on every case (optionally on several OS threads: env VH_THREADS, default 8) and write the
/// traces: `{"id", "kind", "inp", "ev": [...]}`; a panic of the code under test becomes a
/// `{"ev":"panic","msg":..}` event that no specification action explains.
pub fn run_cases<F>(f: F)
where
    F: Fn(&Value) -> Vec<Value> + Sync,
{
    silence_panics();
    let cases = read_cases();
    let nthreads: usize = std::env::var("VH_THREADS").ok().and_then(|s| s.parse().ok()).unwrap_or(8);
    let n = cases.len();
    let mut out: Vec<Value> = vec![Value::Null; n];
    let chunk = ((n + nthreads - 1) / nthreads.max(1)).max(1);
    std::thread::scope(|sc| {
        for (cs, os) in cases.chunks(chunk).zip(out.chunks_mut(chunk)) {
            let f = &f;
            sc.spawn(move || {
                for (c, o) in cs.iter().zip(os.iter_mut()) {
                    let ev = match catch_unwind(AssertUnwindSafe(|| f(c))) {
                        Ok(ev) => ev,
                        Err(p) => vec![json!({"ev": "panic", "msg": panic_msg(&p)})],
                    };
                    let mut m = Map::new();
                    m.insert("id".into(), c.get("id").cloned().unwrap_or(Value::Null));
                    m.insert("kind".into(), c.get("kind").cloned().unwrap_or(json!("")));
                    m.insert("inp".into(), c.get("inp").cloned().unwrap_or(json!({})));
                    m.insert("ev".into(), Value::Array(ev));
                    *o = Value::Object(m);
                }
            });
        }
    });
    write_traces(&out);
}

pub fn silence_panics() {
    std::panic::set_hook(Box::new(|_| {}));
}

pub fn panic_msg(p: &Box<dyn std::any::Any + Send>) -> String {
    let s = if let Some(s) = p.downcast_ref::<&str>() {
        s.to_string()
    } else if let Some(s) = p.downcast_ref::<String>() {
        s.clone()
    } else {
        "panic".to_string()
    };
    s.chars().filter(|c| c.is_ascii() && *c != '"' && *c != '\\').take(160).collect()
}

/// Run a closure, turning a panic into Err(message).
pub fn guarded<T>(f: impl FnOnce() -> T) -> Result<T, String> {
    catch_unwind(AssertUnwindSafe(f)).map_err(|p| panic_msg(&p))
}

/// Event for a panic inside one call (keeps the rest of the case observable).
pub fn panic_event(what: &str, msg: &str) -> Value {
    json!({"ev": "panic", "at": what, "msg": msg})
}

// ---------------------------------------------------------------------------------------------
// JSON accessors

pub fn geti(v: &Value, k: &str) -> i64 {
    v.get(k).and_then(|x| x.as_i64()).unwrap_or_else(|| panic!("missing int field {}", k))
}
pub fn gets<'a>(v: &'a Value, k: &str) -> &'a str {
    v.get(k).and_then(|x| x.as_str()).unwrap_or_else(|| panic!("missing str field {}", k))
}
pub fn getb(v: &Value, k: &str) -> bool {
    v.get(k).and_then(|x| x.as_bool()).unwrap_or_else(|| panic!("missing bool field {}", k))
}
pub fn geta<'a>(v: &'a Value, k: &str) -> &'a Vec<Value> {
    v.get(k).and_then(|x| x.as_array()).unwrap_or_else(|| panic!("missing array field {}", k))
}
pub fn ivec(v: &Value) -> Vec<i64> {
    v.as_array().expect("array").iter().map(|x| x.as_i64().expect("int")).collect()
}
pub fn imat(v: &Value) -> Vec<Vec<i64>> {
    v.as_array().expect("array").iter().map(ivec).collect()
}
/// integer matrix (rows) -> Array2<f64>; `ncols` needed for the empty case
pub fn to_array2(rows: &[Vec<i64>], ncols: usize) -> ndarray::Array2<f64> {
    let n = rows.len();
    let mut a = ndarray::Array2::<f64>::zeros((n, ncols));
    for (i, r) in rows.iter().enumerate() {
        for (j, x) in r.iter().enumerate() {
            a[[i, j]] = *x as f64;
        }
    }
    a
}

// ---------------------------------------------------------------------------------------------
// float encodings (DESIGN.md appendix A)

/// round(v*s) as an integer, or the strings "nan" / "+inf" / "-inf" / "big" (|v*s| >= 2^30).
pub fn fx(v: f64, s: f64) -> Value {
    if v.is_nan() {
        return json!("nan");
    }
    if v.is_infinite() {
        return json!(if v > 0.0 { "+inf" } else { "-inf" });
    }
    let x = (v * s).round();
    if x.abs() >= 1073741824.0 {
        return json!("big");
    }
    json!(x as i64)
}
pub fn fxv<'a>(vs: impl IntoIterator<Item = &'a f64>, s: f64) -> Value {
    Value::Array(vs.into_iter().map(|v| fx(*v, s)).collect())
}
pub fn fxm(a: &ndarray::ArrayView2<f64>, s: f64) -> Value {
    Value::Array(a.outer_iter().map(|r| fxv(r.iter(), s)).collect())
}
pub fn all_finite<'a>(vs: impl IntoIterator<Item = &'a f64>) -> bool {
    vs.into_iter().all(|v| v.is_finite())
}
/// exact-integer observation `{"i": round(v), "exact": bool}`
pub fn exact_int(v: f64) -> Value {
    if !v.is_finite() || v.abs() >= 1073741824.0 {
        return json!({"i": 0, "exact": false});
    }
    let r = v.round();
    json!({"i": r as i64, "exact": (v - r).abs() <= 1e-9 * v.abs().max(1.0)})
}

/// total-order key of an f32 as one i32-range integer (order preserving: a<b <=> key(a)<key(b); -0 < +0)
pub fn key32(v: f32) -> i64 {
    let v = if v == 0.0 { 0.0 } else { v };
    let b = v.to_bits() as i32;
    (if b < 0 { b ^ 0x7fff_ffff } else { b }) as i64
}
/// total-order key of an f64 split into three non-negative limbs [hi(22 bit), mid(21), lo(21)],
/// compared lexicographically. -0.0 and +0.0 get the same key (numeric order, not bit order).
pub fn key64(v: f64) -> Value {
    let v = if v == 0.0 { 0.0 } else { v };
    let b = v.to_bits();
    let u = if (b >> 63) == 1 { !b } else { b | (1u64 << 63) };
    json!([(u >> 42) as i64, ((u >> 21) & 0x1f_ffff) as i64, (u & 0x1f_ffff) as i64])
}

/// FNV-1a digest of a byte string, as two 30-bit integers.
pub fn digest(bytes: &[u8]) -> Value {
    let mut h: u64 = 0xcbf29ce484222325;
    for b in bytes {
        h ^= *b as u64;
        h = h.wrapping_mul(0x100000001b3);
    }
    json!([(h & 0x3fff_ffff) as i64, ((h >> 30) & 0x3fff_ffff) as i64])
}
pub fn digest_f64<'a>(vs: impl IntoIterator<Item = &'a f64>) -> Value {
    let mut bytes = Vec::new();
    for v in vs {
        bytes.extend_from_slice(&v.to_bits().to_le_bytes());
    }
    digest(&bytes)
}
pub fn digest_f32<'a>(vs: impl IntoIterator<Item = &'a f32>) -> Value {
    let mut bytes = Vec::new();
    for v in vs {
        bytes.extend_from_slice(&v.to_bits().to_le_bytes());
    }
    digest(&bytes)
}
pub fn digest_usize<'a>(vs: impl IntoIterator<Item = &'a usize>) -> Value {
    let mut bytes = Vec::new();
    for v in vs {
        bytes.extend_from_slice(&(*v as u64).to_le_bytes());
    }
    digest(&bytes)
}
