//! X04 harness: FastICA (`linfa_ica::fast_ica::FastIca`) on integer matrices.
//!
//! A case carries an integer matrix `X` (n x p), the hyper-parameters exactly as TLC generated them
//! (`k` components, 0 = not set; G function `g` with `am` = alpha in 1/1000; `seeds`: one fit per
//! random_state; `mi` = max_iter, -1 = default; `te`: tol = 10^-te, 0 = default) and unseen integer rows
//! `Z`.  The harness calls the real API and logs, per seed,
//!   fit     : ok / error variant; the private `components` (W, scale 1e6) and `mean` (scale 1e4) as the
//!             public `Serialize` impl of the fitted model publishes them
//!   predict : `predict` of the rows of X followed by the rows of Z (scale 1e6)
//! and at the end
//!   refit   : digests (FNV-1a of the bit patterns of W, mean and the predictions) of the first fit, of
//!             a second fit with the same parameters and random_state after an interleaved fit with
//!             another random_state, and of a third fit on another OS thread
//! It never judges: every comparison is made by specs/Trace_FastIca.tla.
use linfa::dataset::DatasetBase;
use linfa::traits::{Fit, Predict};
use linfa_ica::fast_ica::{FastIca, GFunc};
use linfa_ica::hyperparams::FastIcaParams;
use ndarray::Array2;
use vh::serde_json::{json, Value};
use vh::*;

const SW: f64 = 1e6;
const SM: f64 = 1e4;
const SY: f64 = 1e6;

/// fixed point without string sentinels (a TLA+ comparison of a string with a number is a TLC error):
/// non-finite or too large values are logged as 0 and reported through the flags.
fn fxi(v: f64, s: f64, finite: &mut bool, big: &mut bool) -> i64 {
    if !v.is_finite() {
        *finite = false;
        return 0;
    }
    let x = (v * s).round();
    if x.abs() >= 1073741824.0 {
        *big = true;
        return 0;
    }
    x as i64
}

fn params(inp: &Value, seed: i64) -> FastIcaParams<f64> {
    let mut p: FastIcaParams<f64> = FastIca::params();
    let k = geti(inp, "k");
    if k > 0 {
        p = p.ncomponents(k as usize);
    }
    let g = match gets(inp, "g") {
        "logcosh" => GFunc::Logcosh(geti(inp, "am") as f64 / 1000.0),
        "exp" => GFunc::Exp,
        "cube" => GFunc::Cube,
        other => panic!("harness: unknown g {}", other),
    };
    p = p.gfunc(g);
    if seed >= 0 {
        p = p.random_state(seed as usize);
    }
    let mi = geti(inp, "mi");
    if mi >= 0 {
        p = p.max_iter(mi as usize);
    }
    let te = geti(inp, "te");
    if te > 0 {
        p = p.tol(10f64.powi(-(te as i32)));
    }
    p
}

/// (W row-major, k, p, mean) as published by the Serialize impl (NaN is serialised as null)
fn model_parts(m: &FastIca<f64>) -> (Vec<f64>, usize, usize, Vec<f64>) {
    let v = vh::serde_json::to_value(m).expect("serialize model");
    let num = |x: &Value| x.as_f64().unwrap_or(f64::NAN);
    let comp = &v["components"];
    let dim: Vec<usize> = comp["dim"].as_array().expect("dim").iter().map(|d| d.as_u64().unwrap() as usize).collect();
    let w: Vec<f64> = comp["data"].as_array().expect("data").iter().map(num).collect();
    let mean: Vec<f64> = v["mean"]["data"].as_array().expect("mean").iter().map(num).collect();
    (w, dim[0], dim[1], mean)
}

struct Run {
    ev_fit: Value,
    ev_pred: Option<Value>,
    dig: Value,
    ok: bool,
}

fn one_run(inp: &Value, x: &Array2<f64>, all: &Array2<f64>, seed: i64) -> Run {
    let ds = DatasetBase::from(x.view());
    let res = guarded(|| params(inp, seed).fit(&ds));
    match res {
        Err(msg) => Run { ev_fit: panic_event("fit", &msg), ev_pred: None, dig: digest(msg.as_bytes()), ok: false },
        Ok(Err(e)) => {
            let dbg = format!("{:?}", e);
            let variant: String = dbg.chars().take_while(|c| c.is_ascii_alphanumeric()).collect();
            let msg = e.to_string();
            let m: String = msg.chars().filter(|c| c.is_ascii() && *c != '"' && *c != '\\').take(120).collect();
            Run {
                ev_fit: json!({"ev": "fit", "ok": false, "err": variant, "msg": m,
                               "W": [], "mean": [], "k": 0, "p": 0, "finite": true, "big": false}),
                ev_pred: None,
                dig: digest(msg.as_bytes()),
                ok: false,
            }
        }
        Ok(Ok(model)) => {
            let (w, k, p, mean) = model_parts(&model);
            let (mut fin, mut big) = (true, false);
            let wv: Vec<Vec<i64>> = (0..k).map(|a| (0..p).map(|b| fxi(w[a * p + b], SW, &mut fin, &mut big)).collect()).collect();
            let mv: Vec<i64> = mean.iter().map(|v| fxi(*v, SM, &mut fin, &mut big)).collect();
            let ev_fit = json!({"ev": "fit", "ok": true, "err": "", "msg": "", "W": wv, "mean": mv, "k": k, "p": p,
                                "finite": fin, "big": big});
            let mut bits: Vec<f64> = w.clone();
            bits.extend_from_slice(&mean);
            let (ev_pred, ok) = match guarded(|| model.predict(all)) {
                Err(msg) => (panic_event("predict", &msg), false),
                Ok(y) => {
                    let (mut fin, mut big) = (true, false);
                    let yv: Vec<Vec<i64>> = y.outer_iter().map(|r| r.iter().map(|v| fxi(*v, SY, &mut fin, &mut big)).collect()).collect();
                    bits.extend(y.iter());
                    (json!({"ev": "predict", "Y": yv, "rows": y.nrows(), "cols": y.ncols(), "finite": fin, "big": big}), true)
                }
            };
            Run { ev_fit, ev_pred: Some(ev_pred), dig: digest_f64(bits.iter()), ok }
        }
    }
}

fn run_case(c: &Value) -> Vec<Value> {
    let inp = &c["inp"];
    let p = geti(inp, "p") as usize;
    let xr = imat(&inp["X"]);
    let zr = imat(&inp["Z"]);
    let x = to_array2(&xr, p);
    let mut allr = xr.clone();
    allr.extend(zr.iter().cloned());
    let all = to_array2(&allr, p);

    let seeds = ivec(&inp["seeds"]);
    let mut ev = Vec::new();
    let mut first: Option<Run> = None;
    for (si, seed) in seeds.iter().enumerate() {
        let r = one_run(inp, &x, &all, *seed);
        let mut fe = r.ev_fit.clone();
        if let Some(o) = fe.as_object_mut() {
            o.insert("si".into(), json!(si + 1));
        }
        ev.push(fe);
        if let Some(pe) = r.ev_pred.clone() {
            ev.push(pe);
        }
        if first.is_none() {
            first = Some(r);
        }
    }
    // the first random_state again, after a fit with another one in between, and once more on another thread
    if let Some(r1) = first {
        let s0 = seeds[0];
        let _other = one_run(inp, &x, &all, s0 + 1);
        let r2 = one_run(inp, &x, &all, s0);
        let r3 = std::thread::scope(|s| s.spawn(|| one_run(inp, &x, &all, s0)).join()).unwrap_or_else(|_| Run {
            ev_fit: Value::Null,
            ev_pred: None,
            dig: json!([0, 0]),
            ok: false,
        });
        ev.push(json!({"ev": "refit", "d": [r1.dig, r2.dig, r3.dig], "oks": [r1.ok, r2.ok, r3.ok]}));
    }
    ev
}

fn main() {
    run_cases(run_case);
}
