//! X10 harness: step-level observation of the iterative clustering fits.
//!
//! kinds
//!   "km" : one `KMeans::params_with_rng(k, Xoshiro256Plus(seed)).init_method(..).n_runs(..).tolerance(tn / 2^te)
//!          .max_n_iterations(..).fit(..)` on integer-lattice data (f64, L2), hooks on
//!   "gm" : one `GaussianMixtureModel::params_with_rng(k, Xoshiro256Plus(seed))...fit(..)`, hooks on
//!
//! The step events come from the verification hooks of docs/reports/X10-hook.diff (`kmeans.init`,
//! `kmeans.iter`, `kmeans.run_end`, `kmeans.result`, `gmm.init`, `gmm.iter`, `gmm.run_end`, `gmm.result`;
//! recorded only when the environment has LINFA_VERIF_STEPS set, which `main` does).  On a tree without
//! the hooks no such event arrives and the trace holds the `fit` event (public API) only.
//! The harness never judges: hook floats (bit patterns) are re-encoded as integers
//!   fixed point 2^-16 (centroids), 2^-20 (inertia, squared centroid shift), 10^-6 (lower bounds),
//!   order keys (key64) for every value the code compares.
use linfa::traits::Fit;
use linfa::DatasetBase;
use linfa_clustering::{GaussianMixtureModel, GmmError, GmmInitMethod, KMeans, KMeansInit};
use ndarray::Array2;
use rand::SeedableRng;
use rand_xoshiro::Xoshiro256Plus;
use std::sync::Mutex;
use vh::serde_json::{json, Map, Value};
use vh::*;

const S16: f64 = 65536.0;
const S20: f64 = 1048576.0;
const S6: f64 = 1e6;
/// sentinel for a value that is not an integer in the loggable range (the event's `num` flag is false then)
const NOINT: i64 = -999_999_999;

// the hook buffer is process global: a fit and the draining of its events are serialised
static HOOK_LOCK: Mutex<()> = Mutex::new(());

fn hooked<T>(f: impl FnOnce() -> T) -> (Result<T, String>, Vec<Value>) {
    let _g = HOOK_LOCK.lock().unwrap_or_else(|e| e.into_inner());
    linfa::verif_hook::drain();
    linfa::verif_hook::enable(true);
    let res = guarded(f);
    linfa::verif_hook::enable(false);
    let lines = linfa::verif_hook::drain();
    // the events of the calling thread only (rayon workers log `kmeans.par` rows), in its own order
    let evs: Vec<Value> = lines
        .iter()
        .filter(|l| {
            ["kmeans.init", "kmeans.iter", "kmeans.run_end", "kmeans.result", "gmm."].iter().any(|n| l.contains(&format!("\"ev\":\"{}", n)))
        })
        .map(|l| serde_json::from_str::<Value>(l).unwrap_or_else(|_| json!({"ev": "unparsable"})))
        .collect();
    (res, evs)
}

fn evname(v: &Value) -> &str {
    v.get("ev").and_then(|x| x.as_str()).unwrap_or("")
}
fn int(v: &Value, k: &str) -> Value {
    json!(v.get(k).and_then(|x| x.as_i64()).unwrap_or(NOINT))
}
fn boolean(v: &Value, k: &str) -> Value {
    json!(v.get(k).and_then(|x| x.as_bool()).unwrap_or(false))
}
fn ints(v: &Value, k: &str) -> Value {
    match v.get(k).and_then(|x| x.as_array()) {
        Some(a) => Value::Array(a.iter().map(|x| json!(x.as_i64().unwrap_or(NOINT))).collect()),
        None => json!([NOINT]),
    }
}
/// hook float: 16 hex digits of the f64 bit pattern
fn hexf(v: &Value) -> f64 {
    v.as_str().and_then(|s| u64::from_str_radix(s, 16).ok()).map(f64::from_bits).unwrap_or(f64::NAN)
}
fn hf(v: &Value, k: &str) -> f64 {
    v.get(k).map(hexf).unwrap_or(f64::NAN)
}
/// fixed point as an integer, or NOINT (and `num` cleared)
fn fxi(v: f64, s: f64, num: &mut bool) -> Value {
    match fx(v, s) {
        Value::Number(n) => Value::Number(n),
        _ => {
            *num = false;
            json!(NOINT)
        }
    }
}
fn fxmat(v: &Value, k: &str, s: f64, num: &mut bool) -> Value {
    match v.get(k).and_then(|x| x.as_array()) {
        Some(rows) => Value::Array(
            rows.iter()
                .map(|r| Value::Array(r.as_array().map(|c| c.iter().map(|x| fxi(hexf(x), s, num)).collect()).unwrap_or_default()))
                .collect(),
        ),
        None => {
            *num = false;
            json!([])
        }
    }
}

// ---------------------------------------------------------------------------------------------
// k-means

fn km_event(e: &Value) -> Option<Value> {
    let mut num = true;
    let mut o = Map::new();
    match evname(e) {
        "kmeans.init" => {
            o.insert("ev".into(), json!("kmeans.init"));
            o.insert("run".into(), int(e, "run"));
            o.insert("cen".into(), fxmat(e, "cen", S16, &mut num));
        }
        "kmeans.iter" => {
            let shift = hf(e, "shift");
            o.insert("ev".into(), json!("kmeans.iter"));
            o.insert("run".into(), int(e, "run"));
            o.insert("it".into(), int(e, "it"));
            o.insert("n".into(), int(e, "n"));
            o.insert("mem".into(), ints(e, "mem"));
            o.insert("cen".into(), fxmat(e, "cen", S16, &mut num));
            o.insert("inertia".into(), fxi(hf(e, "inertia"), S20, &mut num));
            o.insert("ikey".into(), key64(hf(e, "inertia")));
            o.insert("shift2".into(), fxi(shift * shift, S20, &mut num));
            o.insert("skey".into(), key64(shift));
            o.insert("tkey".into(), key64(hf(e, "tol")));
            o.insert("maxit".into(), int(e, "maxit"));
            o.insert("dec".into(), json!(e.get("dec").and_then(|x| x.as_str()).unwrap_or("?")));
        }
        "kmeans.run_end" => {
            o.insert("ev".into(), json!("kmeans.run_end"));
            o.insert("run".into(), int(e, "run"));
            o.insert("iters".into(), int(e, "iters"));
            o.insert("n".into(), int(e, "n"));
            o.insert("mem".into(), ints(e, "mem"));
            o.insert("cen".into(), fxmat(e, "cen", S16, &mut num));
            o.insert("inertia".into(), fxi(hf(e, "inertia"), S20, &mut num));
            o.insert("ikey".into(), key64(hf(e, "inertia")));
            o.insert("bkey".into(), key64(hf(e, "best")));
            o.insert("kept".into(), boolean(e, "kept"));
        }
        "kmeans.result" => {
            o.insert("ev".into(), json!("kmeans.result"));
            o.insert("runs".into(), int(e, "runs"));
            o.insert("cen".into(), fxmat(e, "cen", S16, &mut num));
            let counts: Vec<Value> = e.get("counts").and_then(|x| x.as_array()).map(|a| a.iter().map(|x| exact_int(hexf(x))).collect()).unwrap_or_default();
            o.insert("counts".into(), Value::Array(counts));
            o.insert("bkey".into(), key64(hf(e, "best")));
            o.insert("pub".into(), fxi(hf(e, "inertia"), S20, &mut num));
            o.insert("pkey".into(), key64(hf(e, "inertia")));
        }
        _ => return None,
    }
    o.insert("num".into(), json!(num));
    Some(Value::Object(o))
}

fn run_km(inp: &Value) -> Vec<Value> {
    let f = geti(inp, "f") as usize;
    let pts = to_array2(&imat(&inp["pts"]), f);
    let k = geti(inp, "k") as usize;
    let tol = geti(inp, "tn") as f64 / (2f64).powi(geti(inp, "te") as i32);
    let init = match gets(inp, "init") {
        "pre" => KMeansInit::Precomputed(to_array2(&imat(&inp["c0"]), f)),
        "random" => KMeansInit::Random,
        "kmpp" => KMeansInit::KMeansPlusPlus,
        other => panic!("unknown init {}", other),
    };
    let params = KMeans::params_with_rng(k, Xoshiro256Plus::seed_from_u64(geti(inp, "seed") as u64))
        .init_method(init)
        .n_runs(geti(inp, "nruns") as usize)
        .tolerance(tol)
        .max_n_iterations(geti(inp, "maxit") as u64);
    let ds = DatasetBase::from(pts);
    let (res, hook_evs) = hooked(|| params.fit(&ds));
    let mut out: Vec<Value> = hook_evs.iter().filter_map(km_event).collect();
    let mut o = Map::new();
    o.insert("ev".into(), json!("fit"));
    o.insert("steps".into(), json!(out.len()));
    o.insert("tolkey".into(), key64(tol));
    match res {
        Err(msg) => {
            out.push(panic_event("fit", &msg));
            return out;
        }
        Ok(Err(e)) => {
            o.insert("ok".into(), json!(false));
            o.insert("err".into(), json!(e.to_string().chars().filter(|c| c.is_ascii_alphanumeric() || *c == ' ').take(80).collect::<String>()));
        }
        Ok(Ok(model)) => {
            let mut num = true;
            let cen: &Array2<f64> = model.centroids();
            o.insert("ok".into(), json!(true));
            o.insert("err".into(), json!(""));
            o.insert("nrows".into(), json!(cen.nrows()));
            o.insert("ncols".into(), json!(cen.ncols()));
            o.insert("cen".into(), Value::Array(cen.outer_iter().map(|r| Value::Array(r.iter().map(|v| fxi(*v, S16, &mut num)).collect())).collect()));
            o.insert("counts".into(), Value::Array(model.cluster_count().iter().map(|v| exact_int(*v)).collect()));
            o.insert("pub".into(), fxi(model.inertia(), S20, &mut num));
            o.insert("pkey".into(), key64(model.inertia()));
            o.insert("num".into(), json!(num));
        }
    }
    out.push(Value::Object(o));
    out
}

// ---------------------------------------------------------------------------------------------
// Gaussian mixture

fn gm_event(e: &Value) -> Option<Value> {
    let mut o = Map::new();
    match evname(e) {
        "gmm.init" => {
            o.insert("ev".into(), json!("gmm.init"));
            o.insert("k".into(), json!(e.get("weights").and_then(|x| x.as_array()).map(|a| a.len()).unwrap_or(0)));
            let fin = e.get("weights").and_then(|x| x.as_array()).map(|a| a.iter().all(|x| hexf(x).is_finite())).unwrap_or(false)
                && e.get("means").and_then(|x| x.as_array()).map(|a| a.iter().all(|r| r.as_array().map(|c| c.iter().all(|x| hexf(x).is_finite())).unwrap_or(false))).unwrap_or(false);
            o.insert("fin".into(), json!(fin));
        }
        // (another hook may log events of the same name with other fields: only ours carry `dec`)
        "gmm.iter" if e.get("dec").is_some() => {
            let prev = hf(e, "prev");
            let lb = hf(e, "lb");
            let change = hf(e, "change");
            let mut num = true;
            o.insert("ev".into(), json!("gmm.iter"));
            o.insert("run".into(), int(e, "run"));
            o.insert("it".into(), int(e, "it"));
            // lower bounds in fixed point 10^-6 (lbnum: both loggable; the first iteration of a run has prev = -inf)
            let mut lbnum = lb.is_finite();
            let lbfx = fxi(lb, S6, &mut lbnum);
            let mut prevnum = prev.is_finite();
            let prevfx = fxi(prev, S6, &mut prevnum);
            o.insert("lbnum".into(), json!(lbnum));
            o.insert("lb".into(), if lbnum { lbfx } else { json!(0) });
            o.insert("prevnum".into(), json!(prevnum));
            o.insert("prev".into(), if prevnum { prevfx } else { json!(0) });
            o.insert("prevfin".into(), json!(prev.is_finite()));
            o.insert("prevneginf".into(), json!(prev == f64::NEG_INFINITY));
            o.insert("prevk".into(), key64(prev));
            o.insert("lbk".into(), key64(lb));
            o.insert("lbfin".into(), json!(lb.is_finite()));
            // lb - prev recomputed from the two logged lower bounds, next to the logged change (10^-6, when loggable)
            let mut dnum = prev.is_finite() && lb.is_finite() && change.is_finite();
            let d = fxi(lb - prev, S6, &mut dnum);
            let c = fxi(change, S6, &mut dnum);
            o.insert("dnum".into(), json!(dnum));
            o.insert("d".into(), if dnum { d } else { json!(0) });
            o.insert("ch".into(), if dnum { c } else { json!(0) });
            o.insert("chposinf".into(), json!(change == f64::INFINITY));
            o.insert("chnan".into(), json!(change.is_nan()));
            o.insert("abskey".into(), key64(change.abs()));
            o.insert("tkey".into(), key64(hf(e, "tol")));
            o.insert("maxit".into(), int(e, "maxit"));
            o.insert("dec".into(), json!(e.get("dec").and_then(|x| x.as_str()).unwrap_or("?")));
            let _ = &mut num;
        }
        "gmm.run_end" => {
            o.insert("ev".into(), json!("gmm.run_end"));
            o.insert("run".into(), int(e, "run"));
            o.insert("lbk".into(), key64(hf(e, "lb")));
            o.insert("lbnan".into(), json!(hf(e, "lb").is_nan()));
            o.insert("conv".into(), int(e, "conv"));
            o.insert("kept".into(), boolean(e, "kept"));
            o.insert("bkey".into(), key64(hf(e, "best")));
        }
        "gmm.result" => {
            o.insert("ev".into(), json!("gmm.result"));
            o.insert("runs".into(), int(e, "runs"));
            o.insert("conv".into(), boolean(e, "conv"));
            o.insert("params".into(), boolean(e, "params"));
            o.insert("bkey".into(), key64(hf(e, "best")));
        }
        _ => return None,
    }
    Some(Value::Object(o))
}

fn err_kind(e: &GmmError) -> &'static str {
    match e {
        GmmError::InvalidValue(_) => "InvalidValue",
        GmmError::LinalgError(_) => "LinalgError",
        GmmError::EmptyCluster(_) => "EmptyCluster",
        GmmError::LowerBoundError(_) => "LowerBoundError",
        GmmError::NotConverged(_) => "NotConverged",
        GmmError::KMeansError(_) => "KMeansError",
        GmmError::LinfaError(_) => "LinfaError",
        GmmError::MinMaxError(_) => "MinMaxError",
    }
}

fn run_gm(inp: &Value) -> Vec<Value> {
    let p = geti(inp, "p") as usize;
    let data = to_array2(&imat(&inp["data"]), p) / geti(inp, "ds") as f64;
    let k = geti(inp, "k") as usize;
    let reg = geti(inp, "regn") as f64 / geti(inp, "regd") as f64;
    let tol = geti(inp, "toln") as f64 / geti(inp, "told") as f64;
    let init = match gets(inp, "init") {
        "kmeans" => GmmInitMethod::KMeans,
        "random" => GmmInitMethod::Random,
        other => panic!("unknown init {}", other),
    };
    let params = GaussianMixtureModel::<f64>::params_with_rng(k, Xoshiro256Plus::seed_from_u64(geti(inp, "seed") as u64))
        .init_method(init)
        .reg_covariance(reg)
        .tolerance(tol)
        .n_runs(geti(inp, "runs") as u64)
        .max_n_iterations(geti(inp, "maxit") as u64);
    let ds = DatasetBase::from(data);
    let (res, hook_evs) = hooked(|| params.fit(&ds));
    let mut out: Vec<Value> = hook_evs.iter().filter_map(gm_event).collect();
    let steps = out.len();
    match res {
        Err(msg) => out.push(panic_event("fit", &msg)),
        Ok(Err(e)) => out.push(json!({"ev": "fit", "steps": steps, "ok": false, "err": err_kind(&e), "tolkey": key64(tol)})),
        Ok(Ok(g)) => {
            let fin = all_finite(g.weights().iter()) && all_finite(g.means().iter()) && all_finite(g.covariances().iter());
            out.push(json!({"ev": "fit", "steps": steps, "ok": true, "err": "", "tolkey": key64(tol), "k": g.weights().len(), "fin": fin}))
        }
    }
    out
}

fn run(case: &Value) -> Vec<Value> {
    let inp = &case["inp"];
    match gets(case, "kind") {
        "km" => run_km(inp),
        "gm" => run_gm(inp),
        other => panic!("unknown kind {}", other),
    }
}

fn main() {
    // step-level hook events are opt-in (so that the consumers of kmeans.par / kmeans.red are not disturbed)
    std::env::set_var("LINFA_VERIF_STEPS", "1");
    run_cases(run);
}
