//! C11 harness: least-squares estimators (`LinearRegression`, `ElasticNet`, `MultiTaskElasticNet`)
//! on integer lattice designs. The harness only converts the abstract case to arrays, calls the
//! real API and records what comes back as fixed-point integers (scale 10^5); every relation
//! (orthogonality, KKT, duality gap, perturbations) is evaluated by TLC (specs/Trace_LinReg.tla).
//!
//! case.inp: x (n rows of p ints), y (n rows of t ints), ln/ld (penalty), rn/rd (l1 ratio),
//!           icpt, ft ("f64"|"f32"), form ("owned"|"view"|"fview"), maxit, te (tolerance 10^-te),
//!           lte (0 = none, else a second fit with tolerance 10^-lte is recorded as event "loose"),
//!           ue (optional unit exponent, default 0): the targets handed to the estimator are y * 2^ue (exact in
//!           binary floating point) and the l1 weight of the penalty is multiplied by 2^ue (penalty' = l1w*2^ue + l2w,
//!           l1_ratio' = l1w*2^ue / penalty'), which is the same problem expressed in another unit of the target.
//!           Results are logged in the unit of the case: coefficients, intercepts and predictions at scale
//!           10^5 * 2^-ue, the gap at 10^5 * 2^-2ue (divisions by powers of two, exact).
//!           When ue /= 0 and lte > 0 the loose fit is repeated with ue = 0 (event "loose0"): unit equivariance.
//!           off (optional, one integer per column, default 0): the records handed to the estimator are x + off
//!           (exact: |x + off| < 2^24 for f32 cases, < 2^53 for f64); with an offset the intercept is logged as 0
//!           (it is of the size of the offset; the specification works on the un-shifted integers and the logged
//!           predictions, which are shift-invariant).
//! events:   {"ev":"fit"|"loose"|"loose0", "res":"ok"|"err", "sane":bool, "w":[p][t], "b":[t], "gap", "steps",
//!            "zero":[p][t] (coefficient is exactly 0.0), "yhat":[n][t] (predict on the training records)}
use linfa::traits::{Fit, Predict};
use linfa::{DatasetBase, Float};
use linfa_elasticnet::{ElasticNet, MultiTaskElasticNet};
use linfa_linear::LinearRegression;
use ndarray::{Array1, Array2, ShapeBuilder};
use vh::serde_json::{json, Value};
use vh::*;

const S: f64 = 1e5;

fn f2<F: Float>(v: F) -> f64 {
    num_traits::ToPrimitive::to_f64(&v).unwrap_or(f64::NAN)
}

/// fixed-point integer, or 0 with the sanity flag cleared (non-finite / too large for the spec's integers)
fn fxs(v: f64, sane: &mut bool) -> Value {
    let x = fx(v, S);
    if x.is_i64() && x.as_i64().unwrap().abs() < 1_000_000_000 {
        x
    } else {
        *sane = false;
        json!(0)
    }
}

struct Fitted {
    w: Vec<Vec<f64>>, // p x t
    b: Vec<f64>,      // t
    gap: f64,
    steps: i64,
    yhat: Vec<Vec<f64>>, // n x t
    zero: Vec<Vec<bool>>, // filled by `event` from the raw coefficients
}

fn event(name: &str, r: Result<Fitted, String>, unit: f64) -> Value {
    let r = r.map(|f| Fitted {
        w: f.w.iter().map(|r| r.iter().map(|v| v / unit).collect()).collect(),
        b: f.b.iter().map(|v| v / unit).collect(),
        gap: f.gap / (unit * unit),
        steps: f.steps,
        yhat: f.yhat.iter().map(|r| r.iter().map(|v| v / unit).collect()).collect(),
        zero: f.w.iter().map(|r| r.iter().map(|v| *v == 0.0).collect()).collect(),
    });
    match r {
        Err(e) => json!({"ev": name, "res": "err", "msg": e.chars().filter(|c| c.is_ascii() && *c != '"' && *c != '\\').take(120).collect::<String>(),
                         "sane": false, "w": [], "b": [], "gap": 0, "steps": 0, "zero": [], "yhat": []}),
        Ok(f) => {
            let mut sane = true;
            let w: Vec<Value> = f.w.iter().map(|r| Value::Array(r.iter().map(|v| fxs(*v, &mut sane)).collect())).collect();
            let zero: Vec<Value> = f.zero.iter().map(|r| Value::Array(r.iter().map(|v| json!(*v)).collect())).collect();
            let b: Vec<Value> = f.b.iter().map(|v| fxs(*v, &mut sane)).collect();
            let yhat: Vec<Value> = f.yhat.iter().map(|r| Value::Array(r.iter().map(|v| fxs(*v, &mut sane)).collect())).collect();
            let gap = fxs(f.gap, &mut sane);
            json!({"ev": name, "res": "ok", "msg": "", "sane": sane, "w": w, "b": b, "gap": gap, "steps": f.steps,
                   "zero": zero, "yhat": yhat})
        }
    }
}

fn run_typed<F: Float>(kind: &str, inp: &Value) -> Vec<Value> {
    let xr = imat(&inp["x"]);
    let yr = imat(&inp["y"]);
    let n = xr.len();
    let p = geti(inp, "p") as usize;
    let t = geti(inp, "t") as usize;
    let form = gets(inp, "form");
    let icpt = getb(inp, "icpt");
    let off: Vec<i64> = inp.get("off").map(ivec).unwrap_or_else(|| vec![0; p]);
    let shifted = off.iter().any(|o| *o != 0);
    let x: Array2<F> = if form == "fview" {
        Array2::from_shape_fn((n, p).f(), |(i, j)| F::cast((xr[i][j] + off[j]) as f64))
    } else {
        Array2::from_shape_fn((n, p), |(i, j)| F::cast((xr[i][j] + off[j]) as f64))
    };
    let ue = inp.get("ue").and_then(|v| v.as_i64()).unwrap_or(0) as i32;
    let y2u = |u: f64| -> Array2<F> { Array2::from_shape_fn((n, t), |(i, j)| F::cast(yr[i][j] as f64 * u)) };
    let y1u = |u: f64| -> Array1<F> { Array1::from_shape_fn(n, |i| F::cast(yr[i][0] as f64 * u)) };
    let y1 = y1u(1.0);
    let mut out = vec![];

    match kind {
        "ols" => {
            let est = LinearRegression::new().with_intercept(icpt);
            let r = guarded(|| {
                let m = if form == "owned" {
                    est.fit(&DatasetBase::new(x.clone(), y1.clone()))
                } else {
                    est.fit(&DatasetBase::new(x.view(), y1.view()))
                };
                m.map(|m| {
                    let yh = m.predict(&x);
                    Fitted {
                        w: m.params().iter().map(|v| vec![f2(*v)]).collect(),
                        b: vec![if shifted { 0.0 } else { f2(m.intercept()) }],
                        gap: 0.0,
                        steps: 0,
                        yhat: yh.iter().map(|v| vec![f2(*v)]).collect(),
                        zero: vec![],
                    }
                })
                .map_err(|e| e.to_string())
            });
            match r {
                Ok(r) => out.push(event("fit", r, 1.0)),
                Err(msg) => out.push(panic_event("fit", &msg)),
            }
        }
        "enet" | "mtl" => {
            let (ln, ld) = (geti(inp, "ln") as f64, geti(inp, "ld") as f64);
            let (rn, rd) = (geti(inp, "rn"), geti(inp, "rd"));
            let maxit = geti(inp, "maxit") as u32;
            let te = geti(inp, "te");
            let lte = geti(inp, "lte");
            let mut runs = vec![("fit", te, ue)];
            if lte > 0 {
                runs.push(("loose", lte, ue));
                if ue != 0 {
                    runs.push(("loose0", lte, 0));
                }
            }
            for (name, e, uexp) in runs {
                let unit = 2f64.powi(uexp);
                // the case's problem in the unit `unit` of the target: l1 weight scales with the unit, l2 weight does not
                let l1w = ln * rn as f64 / (ld * rd as f64) * unit;
                let l2w = ln * (rd - rn) as f64 / (ld * rd as f64);
                let pen = F::cast(l1w + l2w);
                let l1 = F::cast(if l1w + l2w > 0.0 { l1w / (l1w + l2w) } else { rn as f64 / rd as f64 });
                let (y1, y2) = (y1u(unit), y2u(unit));
                let tol = F::cast(10f64.powi(-(e as i32)));
                let r = guarded(|| {
                    if kind == "enet" {
                        // the convenience constructors are the same parameter set with l1_ratio preset
                        let base = if rn == rd {
                            ElasticNet::<F>::lasso()
                        } else if rn == 0 {
                            ElasticNet::<F>::ridge()
                        } else {
                            ElasticNet::<F>::params().l1_ratio(l1)
                        };
                        let prm = base.penalty(pen).with_intercept(icpt).tolerance(tol).max_iterations(maxit);
                        let m = if form == "owned" {
                            prm.fit(&DatasetBase::new(x.clone(), y1.clone()))
                        } else {
                            prm.fit(&DatasetBase::new(x.view(), y1.view()))
                        };
                        m.map(|m| {
                            let yh = m.predict(&x);
                            Fitted {
                                w: m.hyperplane().iter().map(|v| vec![f2(*v)]).collect(),
                                b: vec![f2(m.intercept())],
                                gap: f2(m.duality_gap()),
                                steps: m.n_steps() as i64,
                                yhat: yh.iter().map(|v| vec![f2(*v)]).collect(),
                                zero: vec![],
                            }
                        })
                        .map_err(|e| e.to_string())
                    } else {
                        let base = if rn == rd {
                            MultiTaskElasticNet::<F>::lasso()
                        } else if rn == 0 {
                            MultiTaskElasticNet::<F>::ridge()
                        } else {
                            MultiTaskElasticNet::<F>::params().l1_ratio(l1)
                        };
                        let prm = base.penalty(pen).with_intercept(icpt).tolerance(tol).max_iterations(maxit);
                        let m = if form == "owned" {
                            prm.fit(&DatasetBase::new(x.clone(), y2.clone()))
                        } else {
                            prm.fit(&DatasetBase::new(x.view(), y2.view()))
                        };
                        m.map(|m| {
                            let yh: Array2<F> = m.predict(&x);
                            Fitted {
                                w: m.hyperplane().outer_iter().map(|r| r.iter().map(|v| f2(*v)).collect()).collect(),
                                b: m.intercept().iter().map(|v| f2(*v)).collect(),
                                gap: f2(m.duality_gap()),
                                steps: m.n_steps() as i64,
                                yhat: yh.outer_iter().map(|r| r.iter().map(|v| f2(*v)).collect()).collect(),
                                zero: vec![],
                            }
                        })
                        .map_err(|e| e.to_string())
                    }
                });
                match r {
                    Ok(r) => out.push(event(name, r, unit)),
                    Err(msg) => out.push(panic_event(name, &msg)),
                }
            }
        }
        _ => panic!("unknown kind {}", kind),
    }
    out
}

fn run(case: &Value) -> Vec<Value> {
    let kind = gets(case, "kind");
    let inp = &case["inp"];
    match gets(inp, "ft") {
        "f32" => run_typed::<f32>(kind, inp),
        _ => run_typed::<f64>(kind, inp),
    }
}

fn main() {
    run_cases(run);
}
