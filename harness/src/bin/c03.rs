//! C03 harness: prediction is a per-sample function, identical through every calling form.
//!
//! A case names a predictor type + instance (fitted here on small deterministic data), a pool of
//! query rows (integers, value = int/4) and a program of calls `{st, fm, ly, ids}`:
//!   st  = "own" (Array2 / Dataset<Array2>) | "view" (ArrayView2 / Dataset<ArrayView2>)
//!   fm  = "ref_arr" (&records -> T) | "own_arr" (records -> Dataset) | "ref_ds" (&Dataset -> T)
//!         | "own_ds" (Dataset -> Dataset) | "inplace" (default_target + predict_inplace)
//!         | "dirty" (as inplace, the target buffer pre-filled with garbage)
//!         | "prefill" (as inplace, every entry of the target buffer pre-set to the valid label `pv`)
//!         | "caller" (predict_inplace into a target the caller allocated himself: documented shape, layout `tl`,
//!                     default values / garbage / a valid label)
//!         | "row1p" (k-means: single-observation predict_inplace into a membership holding `pv`)
//!         | "row1" (the model's single-observation API, one call per id)
//!   ly  = "c" | "f" (column-major) | "rs" (every 2nd row of a bigger buffer) | "rev" (rows stored
//!         in reverse, negative stride) | "cs" (every 2nd column of a bigger buffer)
//! Every call is logged as integer codes (labels exactly, floats as round(v*1e6); unbounded float outputs
//! of *extreme* rows -- a coordinate beyond +-16 -- as round(v*1e3), see `scale`); the dataset
//! forms also log the records they hand back. Wrapper kinds additionally log what each member
//! model predicts for each pool row alone, and the Platt parameters. No judgement happens here.
use linfa::composing::platt_scaling::Platt;
use linfa::composing::{MultiClassModel, MultiTargetModel};
use linfa::dataset::{DatasetBase, Pr, Records};
use linfa::traits::{Fit, FitWith, Predict, PredictInplace};
use linfa::ParamGuard;
use linfa_nn::distance::{L1Dist, L2Dist};
use ndarray::{s, Array1, Array2, ArrayView1, ArrayView2, Axis, Ix2, ShapeBuilder, SliceInfo, SliceInfoElem};
use rand_xoshiro::rand_core::SeedableRng;
use rand_xoshiro::Xoshiro256Plus;
use std::sync::Arc;
use vh::serde_json::{json, Value};
use vh::*;

// ---------------------------------------------------------------------------------------------
// encodings

const S6: f64 = 1e6;
const S3: f64 = 1e3;

/// A query row is "extreme" when some coordinate exceeds 16 in absolute value (pool cell > 64 quarter
/// units). Unbounded float outputs of such rows are logged at S = 1e3 instead of 1e6 (they are 1e2..1e4
/// times larger); probabilities and labels are logged as always. The trace spec applies the same rule.
fn ext_cells(row: &[i64]) -> bool {
    row.iter().any(|c| c.abs() > 64)
}
fn ext_vals<F: Fl>(row: ArrayView1<F>) -> bool {
    row.iter().any(|v| v.to64().abs() > 16.0)
}
fn scale(ext: bool) -> f64 {
    if ext {
        S3
    } else {
        S6
    }
}
fn at(ext: &[bool], p: usize) -> bool {
    ext.get(p).copied().unwrap_or(false)
}
fn code(v: f64) -> Value {
    code_s(v, S6)
}

/// float -> integer code at scale s; non-finite / too large values become sentinels >= 2e9
fn code_s(v: f64, s: f64) -> Value {
    if v.is_nan() {
        return json!(2000000001i64);
    }
    if v.is_infinite() {
        return json!(if v > 0.0 { 2000000002i64 } else { 2000000003i64 });
    }
    let x = (v * s).round();
    if x.abs() >= 1073741824.0 {
        return json!(2000000004i64);
    }
    json!(x as i64)
}

/// one code vector per output row
trait Enc {
    fn enc(&self, ext: &[bool]) -> Vec<Value>;
    fn width(&self) -> usize;
}
impl Enc for Array1<usize> {
    fn enc(&self, ext: &[bool]) -> Vec<Value> {
        self.iter().map(|x| json!([*x as i64])).collect()
    }
    fn width(&self) -> usize {
        1
    }
}
impl Enc for Array1<bool> {
    fn enc(&self, ext: &[bool]) -> Vec<Value> {
        self.iter().map(|x| json!([*x as i64])).collect()
    }
    fn width(&self) -> usize {
        1
    }
}
impl Enc for Array1<f64> {
    fn enc(&self, ext: &[bool]) -> Vec<Value> {
        self.iter().enumerate().map(|(p, x)| json!([code_s(*x, scale(at(ext, p)))])).collect()
    }
    fn width(&self) -> usize {
        1
    }
}
impl Enc for Array1<f32> {
    fn enc(&self, ext: &[bool]) -> Vec<Value> {
        self.iter().enumerate().map(|(p, x)| json!([code_s(*x as f64, scale(at(ext, p)))])).collect()
    }
    fn width(&self) -> usize {
        1
    }
}
impl Enc for Array1<Pr> {
    fn enc(&self, ext: &[bool]) -> Vec<Value> {
        self.iter().map(|x| json!([code(**x as f64)])).collect()
    }
    fn width(&self) -> usize {
        1
    }
}
impl Enc for Array2<f64> {
    fn enc(&self, ext: &[bool]) -> Vec<Value> {
        self.outer_iter().enumerate().map(|(p, r)| Value::Array(r.iter().map(|x| code_s(*x, scale(at(ext, p)))).collect())).collect()
    }
    fn width(&self) -> usize {
        self.ncols()
    }
}
impl Enc for Array2<f32> {
    fn enc(&self, ext: &[bool]) -> Vec<Value> {
        self.outer_iter().enumerate().map(|(p, r)| Value::Array(r.iter().map(|x| code_s(*x as f64, scale(at(ext, p)))).collect())).collect()
    }
    fn width(&self) -> usize {
        self.ncols()
    }
}
impl Enc for Array2<usize> {
    fn enc(&self, ext: &[bool]) -> Vec<Value> {
        self.outer_iter().map(|r| Value::Array(r.iter().map(|x| json!(*x as i64)).collect())).collect()
    }
    fn width(&self) -> usize {
        self.ncols()
    }
}

/// overwrite a target buffer with garbage (the "dirty" in-place form: prior content must not matter)
trait Dirty {
    fn dirty(&mut self);
    /// every entry holds the (valid) label value `v` before the call; non-label targets: as `dirty`
    fn prefill(&mut self, _v: i64) {
        self.dirty()
    }
}
impl Dirty for Array1<usize> {
    fn dirty(&mut self) {
        self.fill(97)
    }
    fn prefill(&mut self, v: i64) {
        self.fill(v as usize)
    }
}
impl Dirty for Array2<usize> {
    fn dirty(&mut self) {
        self.fill(97)
    }
}
impl Dirty for Array1<bool> {
    fn prefill(&mut self, v: i64) {
        self.fill(v != 0)
    }
    fn dirty(&mut self) {
        let mut t = false;
        for x in self.iter_mut() {
            t = !t;
            *x = t;
        }
    }
}
impl Dirty for Array1<f64> {
    fn dirty(&mut self) {
        self.fill(7.25)
    }
}
impl Dirty for Array1<f32> {
    fn dirty(&mut self) {
        self.fill(7.25)
    }
}
impl Dirty for Array2<f64> {
    fn dirty(&mut self) {
        self.fill(7.25)
    }
}
impl Dirty for Array2<f32> {
    fn dirty(&mut self) {
        self.fill(7.25)
    }
}
impl Dirty for Array1<Pr> {
    fn dirty(&mut self) {
        self.fill(Pr::new(0.75))
    }
}

/// a target buffer the CALLER allocates (documented shape, default values) in a given memory layout:
/// "c" | "f" (column-major) | "rs" (every 2nd row of a larger buffer) | "rev" (negative row stride)
/// | "cs" (every 2nd column of a larger buffer); for 1-D targets "f" and "cs" coincide with "c"
trait Alloc {
    fn alloc(n: usize, w: usize, tl: &str) -> Self;
}
impl<T: Clone + Default> Alloc for Array1<T> {
    fn alloc(n: usize, _w: usize, tl: &str) -> Self {
        match tl {
            "rs" => Array1::default(2 * n).slice_move(s![..;2]),
            "rev" => Array1::default(n).slice_move(s![..;-1]),
            _ => Array1::default(n),
        }
    }
}
impl<T: Clone + Default> Alloc for Array2<T> {
    fn alloc(n: usize, w: usize, tl: &str) -> Self {
        match tl {
            "f" => Array2::default((n, w).f()),
            "rs" => Array2::default((2 * n, w)).slice_move(s![..;2, ..]),
            "rev" => Array2::default((n, w)).slice_move(s![..;-1, ..]),
            "cs" => Array2::default((n, 2 * w)).slice_move(s![.., ..;2]),
            _ => Array2::default((n, w)),
        }
    }
}

/// float element types of the records
trait Fl: linfa::Float {
    fn of(v: f64) -> Self;
    fn to64(self) -> f64;
}
impl Fl for f64 {
    fn of(v: f64) -> f64 {
        v
    }
    fn to64(self) -> f64 {
        self
    }
}
impl Fl for f32 {
    fn of(v: f64) -> f32 {
        v as f32
    }
    fn to64(self) -> f64 {
        self as f64
    }
}

/// records handed back: quarter units as exact integers + exactness flag
fn back_rows<F: Fl>(a: ArrayView2<F>) -> (Value, bool) {
    let mut exact = true;
    let rows = a
        .outer_iter()
        .map(|r| {
            Value::Array(
                r.iter()
                    .map(|x| {
                        let q = x.to64() * 4.0;
                        if !q.is_finite() || (q - q.round()).abs() > 1e-9 || q.abs() > 1e9 {
                            exact = false;
                            json!(0)
                        } else {
                            json!(q.round() as i64)
                        }
                    })
                    .collect(),
            )
        })
        .collect();
    (Value::Array(rows), exact)
}

// ---------------------------------------------------------------------------------------------
// batch construction in a given memory layout

const JUNK: f64 = 777.0;

/// backing buffer such that `backing.slice(slinfo(ly))` is the batch (rows = pool rows by ids)
fn backing<F: Fl>(rows: &[&Vec<i64>], nf: usize, ly: &str) -> Array2<F> {
    let n = rows.len();
    let val = |p: usize, c: usize| F::of(rows[p][c] as f64 / 4.0);
    match ly {
        "c" => Array2::from_shape_fn((n, nf), |(p, c)| val(p, c)),
        "f" => Array2::from_shape_fn((n, nf).f(), |(p, c)| val(p, c)),
        "rs" => Array2::from_shape_fn((2 * n, nf), |(p, c)| if p % 2 == 0 { val(p / 2, c) } else { F::of(JUNK) }),
        "rev" => Array2::from_shape_fn((n, nf), |(p, c)| val(n - 1 - p, c)),
        "cs" => Array2::from_shape_fn((n, 2 * nf), |(p, c)| if c % 2 == 0 { val(p, c / 2) } else { F::of(JUNK) }),
        _ => panic!("harness: unknown layout {}", ly),
    }
}
fn slinfo(ly: &str) -> SliceInfo<[SliceInfoElem; 2], Ix2, Ix2> {
    match ly {
        "c" | "f" => s![.., ..],
        "rs" => s![..;2, ..],
        "rev" => s![..;-1, ..],
        "cs" => s![.., ..;2],
        _ => panic!("harness: unknown layout {}", ly),
    }
}

// ---------------------------------------------------------------------------------------------
// the program interpreter: one macro so that every calling form is resolved statically for the
// concrete model type (exactly what user code does)

struct Call {
    st: String,
    fm: String,
    ly: String,
    ids: Vec<usize>,
    pv: i64, // "prefill" / "row1p": the label value the caller's output buffer holds before the call (-1: none)
    // "caller": the target is allocated by the caller in layout `tl`; pv = -1 default values, -2 garbage, >= 0 that label
    tl: String,
}
struct Inp {
    pool: Vec<Vec<i64>>,
    nf: usize,
    w: usize,
    prog: Vec<Call>,
}
fn parse_inp(inp: &Value) -> Inp {
    let pool = imat(&inp["pool"]);
    let nf = geti(inp, "nf") as usize;
    let prog = geta(inp, "prog")
        .iter()
        .map(|c| Call {
            st: gets(c, "st").to_string(),
            fm: gets(c, "fm").to_string(),
            ly: gets(c, "ly").to_string(),
            ids: ivec(&c["ids"]).into_iter().map(|x| x as usize).collect(),
            pv: c.get("pv").and_then(|x| x.as_i64()).unwrap_or(-1),
            tl: c.get("tl").and_then(|x| x.as_str()).unwrap_or("c").to_string(),
        })
        .collect();
    let w = inp.get("w").and_then(|x| x.as_i64()).unwrap_or(1) as usize;
    Inp { pool, nf, w, prog }
}

fn call_event(k: usize, outs: Vec<Value>, w: usize, back: Option<(Value, bool)>) -> Value {
    let n = outs.len();
    match back {
        Some((b, bx)) => json!({"ev": "call", "k": k, "n": n, "w": w, "outs": outs, "hb": true, "back": b, "bx": bx}),
        None => json!({"ev": "call", "k": k, "n": n, "w": w, "outs": outs, "hb": false, "back": [], "bx": true}),
    }
}

type Row1<'a, F> = Option<&'a dyn Fn(ArrayView1<F>, i64) -> Value>;

macro_rules! own_forms {
    ($m:expr, $F:ty, $T:ty, $c:expr, $bk:expr, $n:expr, $ext:expr, $w:expr) => {{
        let x: Array2<$F> = $bk.slice_move(slinfo(&$c.ly));
        match $c.fm.as_str() {
            "ref_arr" => {
                let y: $T = $m.predict(&x);
                (y.enc($ext), y.width(), None)
            }
            "own_arr" => {
                let d: DatasetBase<Array2<$F>, $T> = $m.predict(x);
                (d.targets.enc($ext), d.targets.width(), Some(back_rows(d.records.view())))
            }
            "ref_ds" => {
                let ds = DatasetBase::new(x, Array1::<f64>::zeros($n));
                let y: $T = $m.predict(&ds);
                (y.enc($ext), y.width(), None)
            }
            "own_ds" => {
                let ds = DatasetBase::new(x, Array1::<f64>::zeros($n));
                let d: DatasetBase<Array2<$F>, $T> = $m.predict(ds);
                (d.targets.enc($ext), d.targets.width(), Some(back_rows(d.records.view())))
            }
            "inplace" | "dirty" | "prefill" => {
                let mut y: $T = PredictInplace::<Array2<$F>, $T>::default_target($m, &x);
                if $c.fm == "dirty" {
                    y.dirty();
                } else if $c.fm == "prefill" {
                    y.prefill($c.pv);
                }
                PredictInplace::<Array2<$F>, $T>::predict_inplace($m, &x, &mut y);
                (y.enc($ext), y.width(), None)
            }
            "caller" => {
                let mut y: $T = <$T as Alloc>::alloc($n, $w, &$c.tl);
                if $c.pv == -2 {
                    y.dirty();
                } else if $c.pv >= 0 {
                    y.prefill($c.pv);
                }
                PredictInplace::<Array2<$F>, $T>::predict_inplace($m, &x, &mut y);
                (y.enc($ext), y.width(), None)
            }
            other => panic!("harness: unknown form {}", other),
        }
    }};
}
macro_rules! view_forms {
    ($m:expr, $F:ty, $T:ty, $c:expr, $bk:expr, $n:expr, $ext:expr, $w:expr) => {{
        let x: ArrayView2<$F> = $bk.slice(slinfo(&$c.ly));
        match $c.fm.as_str() {
            "ref_arr" => {
                let y: $T = $m.predict(&x);
                (y.enc($ext), y.width(), None)
            }
            "own_arr" => {
                let d: DatasetBase<ArrayView2<$F>, $T> = $m.predict(x);
                (d.targets.enc($ext), d.targets.width(), Some(back_rows(d.records.view())))
            }
            "ref_ds" => {
                let ds = DatasetBase::new(x, Array1::<f64>::zeros($n));
                let y: $T = $m.predict(&ds);
                (y.enc($ext), y.width(), None)
            }
            "own_ds" => {
                let ds = DatasetBase::new(x, Array1::<f64>::zeros($n));
                let d: DatasetBase<ArrayView2<$F>, $T> = $m.predict(ds);
                (d.targets.enc($ext), d.targets.width(), Some(back_rows(d.records.view())))
            }
            "inplace" | "dirty" | "prefill" => {
                let mut y: $T = PredictInplace::<ArrayView2<$F>, $T>::default_target($m, &x);
                if $c.fm == "dirty" {
                    y.dirty();
                } else if $c.fm == "prefill" {
                    y.prefill($c.pv);
                }
                PredictInplace::<ArrayView2<$F>, $T>::predict_inplace($m, &x, &mut y);
                (y.enc($ext), y.width(), None)
            }
            "caller" => {
                let mut y: $T = <$T as Alloc>::alloc($n, $w, &$c.tl);
                if $c.pv == -2 {
                    y.dirty();
                } else if $c.pv >= 0 {
                    y.prefill($c.pv);
                }
                PredictInplace::<ArrayView2<$F>, $T>::predict_inplace($m, &x, &mut y);
                (y.enc($ext), y.width(), None)
            }
            other => panic!("harness: unknown form {}", other),
        }
    }};
}

/// run the program of `inp` on model `$m` (a reference); events are appended to `$ev`
macro_rules! run_prog {
    ($ev:expr, $inp:expr, $m:expr, $F:ty, $T:ty, $row1:expr, views) => {
        run_prog!(@go $ev, $inp, $m, $F, $T, $row1, true)
    };
    ($ev:expr, $inp:expr, $m:expr, $F:ty, $T:ty, $row1:expr, noviews) => {
        run_prog!(@go $ev, $inp, $m, $F, $T, $row1, false)
    };
    (@go $ev:expr, $inp:expr, $m:expr, $F:ty, $T:ty, $row1:expr, $views:tt) => {{
        let row1: Row1<$F> = $row1;
        for (k0, c) in $inp.prog.iter().enumerate() {
            let k = k0 + 1;
            let rows: Vec<&Vec<i64>> = c.ids.iter().map(|i| &$inp.pool[*i - 1]).collect();
            let n = rows.len();
            let ext: Vec<bool> = rows.iter().map(|r| ext_cells(r)).collect();
            let r = guarded(|| -> (Vec<Value>, usize, Option<(Value, bool)>) {
                let bk: Array2<$F> = backing::<$F>(&rows, $inp.nf, &c.ly);
                if c.fm == "row1" || c.fm == "row1p" {
                    let f = row1.expect("harness: model has no single-row API");
                    let x = bk.slice(slinfo(&c.ly));
                    return (x.outer_iter().map(|r| f(r, c.pv)).collect(), 1, None);
                }
                if c.st == "own" {
                    own_forms!($m, $F, $T, c, bk, n, &ext, $inp.w)
                } else {
                    run_prog!(@view $views, $m, $F, $T, c, bk, n, &ext, $inp.w)
                }
            });
            match r {
                Ok((outs, w, back)) => $ev.push(call_event(k, outs, w, back)),
                Err(msg) => {
                    $ev.push(json!({"ev": "panic", "k": k, "fm": c.fm, "st": c.st, "ly": c.ly, "msg": msg}));
                    break;
                }
            }
        }
    }};
    (@view true, $m:expr, $F:ty, $T:ty, $c:expr, $bk:expr, $n:expr, $ext:expr, $w:expr) => {
        view_forms!($m, $F, $T, $c, $bk, $n, $ext, $w)
    };
    (@view false, $m:expr, $F:ty, $T:ty, $c:expr, $bk:expr, $n:expr, $ext:expr, $w:expr) => {
        panic!("harness: model has no view forms")
    };
}

// ---------------------------------------------------------------------------------------------
// deterministic training data (not part of the relation: the fitted model is a black box)

struct Lcg(u64);
impl Lcg {
    fn new(seed: u64) -> Lcg {
        Lcg(seed.wrapping_mul(0x9E3779B97F4A7C15).wrapping_add(0x1234567))
    }
    fn u(&mut self) -> f64 {
        self.0 = self.0.wrapping_mul(6364136223846793005).wrapping_add(1442695040888963407);
        ((self.0 >> 11) as f64) / ((1u64 << 53) as f64)
    }
    /// uniform in [-1, 1), on a 1/64 grid
    fn sym(&mut self) -> f64 {
        ((self.u() * 128.0).floor() - 64.0) / 64.0
    }
}

/// `per` points around each centre, spread +-`sp`; labels = centre index
fn blobs(seed: u64, centres: &[Vec<f64>], per: usize, sp: f64) -> (Array2<f64>, Array1<usize>) {
    let mut g = Lcg::new(seed);
    let nf = centres[0].len();
    let n = centres.len() * per;
    let mut x = Array2::zeros((n, nf));
    let mut y = Array1::zeros(n);
    for i in 0..n {
        let c = i % centres.len();
        for j in 0..nf {
            x[[i, j]] = centres[c][j] + sp * g.sym();
        }
        y[i] = c;
    }
    (x, y)
}
/// n points uniform in [lo, hi)^nf
fn cloud(seed: u64, n: usize, nf: usize, lo: f64, hi: f64) -> Array2<f64> {
    let mut g = Lcg::new(seed);
    Array2::from_shape_fn((n, nf), |_| lo + (hi - lo) * (g.sym() + 1.0) / 2.0)
}
fn cast<F: Fl>(a: &Array2<f64>) -> Array2<F> {
    a.mapv(F::of)
}
fn cast1<F: Fl>(a: &Array1<f64>) -> Array1<F> {
    a.mapv(F::of)
}
fn centres2(inst: u64) -> Vec<Vec<f64>> {
    match inst % 3 {
        1 => vec![vec![-0.5, 0.0], vec![2.5, 0.5], vec![1.0, 3.0]],
        2 => vec![vec![0.0, 2.5], vec![3.0, 2.0], vec![1.5, -0.5]],
        _ => vec![vec![0.25, 0.25], vec![2.0, 2.75], vec![3.0, -0.5]],
    }
}
fn rng(seed: u64) -> Xoshiro256Plus {
    Xoshiro256Plus::seed_from_u64(seed)
}

/// a shared handle so that a member model stays observable after a wrapper took ownership
struct Share<M>(Arc<M>);
impl<M> std::fmt::Debug for Share<M> {
    fn fmt(&self, f: &mut std::fmt::Formatter<'_>) -> std::fmt::Result {
        write!(f, "Share")
    }
}
impl<R: Records, T, M: PredictInplace<R, T>> PredictInplace<R, T> for Share<M> {
    fn predict_inplace<'a>(&'a self, x: &'a R, y: &mut T) {
        self.0.predict_inplace(x, y)
    }
    fn default_target(&self, x: &R) -> T {
        self.0.default_target(x)
    }
}

/// mock members (exact functions of the row): regression value / probability looked up by pool row
struct MockReg {
    j: usize,
}
impl MockReg {
    fn f(&self, r: ArrayView1<f64>) -> f64 {
        100.0 * (self.j as f64 + 1.0) + r[0] + if r.len() > 1 { 8.0 * r[1] } else { 0.0 }
    }
}
impl PredictInplace<Array2<f64>, Array1<f64>> for MockReg {
    fn predict_inplace<'a>(&'a self, x: &'a Array2<f64>, y: &mut Array1<f64>) {
        assert_eq!(x.nrows(), y.len());
        for (r, t) in x.outer_iter().zip(y.iter_mut()) {
            *t = self.f(r);
        }
    }
    fn default_target(&self, x: &Array2<f64>) -> Array1<f64> {
        Array1::zeros(x.nrows())
    }
}
struct MockPr {
    pool: Vec<Vec<i64>>,
    tab: Vec<i64>, // probability of pool row i in quarter units
}
impl MockPr {
    fn p(&self, r: ArrayView1<f64>) -> Pr {
        for (i, pr) in self.pool.iter().enumerate() {
            if pr.iter().zip(r.iter()).all(|(a, b)| (*a as f64 / 4.0) == *b) {
                return Pr::new(self.tab[i] as f32 / 4.0);
            }
        }
        panic!("harness: mock member got a row outside the pool")
    }
}
impl PredictInplace<Array2<f64>, Array1<Pr>> for MockPr {
    fn predict_inplace<'a>(&'a self, x: &'a Array2<f64>, y: &mut Array1<Pr>) {
        assert_eq!(x.nrows(), y.len());
        for (r, t) in x.outer_iter().zip(y.iter_mut()) {
            *t = self.p(r);
        }
    }
    fn default_target(&self, x: &Array2<f64>) -> Array1<Pr> {
        Array1::default(x.nrows())
    }
}
/// mock decision function for Platt: first feature minus one (exact, ties between equal rows)
#[derive(Debug)]
struct MockDec;
impl PredictInplace<Array2<f64>, Array1<f64>> for MockDec {
    fn predict_inplace<'a>(&'a self, x: &'a Array2<f64>, y: &mut Array1<f64>) {
        assert_eq!(x.nrows(), y.len());
        for (r, t) in x.outer_iter().zip(y.iter_mut()) {
            *t = r[0] - 1.0;
        }
    }
    fn default_target(&self, x: &Array2<f64>) -> Array1<f64> {
        Array1::zeros(x.nrows())
    }
}

/// what member j predicts for pool row i alone (borrowed one-row Array2, standard layout)
fn member_events<T: Enc>(ev: &mut Vec<Value>, inp: &Inp, j: usize, m: &dyn PredictInplace<Array2<f64>, T>) {
    for (i, row) in inp.pool.iter().enumerate() {
        let x: Array2<f64> = backing::<f64>(&[row], inp.nf, "c");
        let r = guarded(|| {
            let mut y = m.default_target(&x);
            m.predict_inplace(&x, &mut y);
            y.enc(&[ext_cells(row)])
        });
        match r {
            Ok(o) if o.len() == 1 => ev.push(json!({"ev": "member", "j": j, "id": i + 1, "out": o[0]})),
            Ok(_) => ev.push(json!({"ev": "panic", "msg": "member returned a wrong number of rows"})),
            Err(msg) => ev.push(json!({"ev": "panic", "msg": msg})),
        }
    }
}

/// Platt parameters from the Debug rendering `Platt { a: .., b: .., obj: .. }` (fields are private)
fn platt_ab(dbg: &str) -> (f64, f64) {
    let grab = |key: &str| -> f64 {
        let i = dbg.find(key).expect("harness: platt debug") + key.len();
        let rest = &dbg[i..];
        let end = rest.find(|c: char| c == ',' || c == ' ' || c == '}').unwrap_or(rest.len());
        rest[..end].parse::<f64>().expect("harness: platt number")
    };
    (grab("a: "), grab("b: "))
}
fn params_event(a: f64, b: f64) -> Value {
    json!({"ev": "params", "a": fx(a, 1e4), "b": fx(b, 1e4)})
}

// ---------------------------------------------------------------------------------------------
// fitted instances

fn class_data(inst: u64, k: usize) -> (Array2<f64>, Array1<usize>) {
    let c: Vec<Vec<f64>> = centres2(inst).into_iter().take(k).collect();
    blobs(100 + inst, &c, 6, 1.0)
}
fn bool_data(inst: u64) -> (Array2<f64>, Array1<bool>) {
    let (x, y) = class_data(inst, 2);
    (x, y.mapv(|l| l == 1))
}
fn reg_data(inst: u64, nf: usize) -> (Array2<f64>, Array1<f64>) {
    let x = cloud(200 + inst, 14, nf, -1.0, 3.5);
    let mut g = Lcg::new(300 + inst);
    let w = [1.5, -2.0, 0.75];
    let y = x.outer_iter().map(|r| r.iter().enumerate().map(|(j, v)| w[j % 3] * v).sum::<f64>() + 0.5 + 0.3 * g.sym()).collect();
    (x, y)
}

fn run(case: &Value) -> Vec<Value> {
    let inpv = &case["inp"];
    let model = gets(inpv, "model").to_string();
    let inst = geti(inpv, "inst") as u64;
    let ft = inpv.get("ft").and_then(|x| x.as_str()).unwrap_or("f64").to_string();
    let inp = parse_inp(inpv);
    let mut ev: Vec<Value> = vec![];

    if inpv.get("fam").and_then(|x| x.as_str()) == Some("tie") && model != "gnb" && model != "mnb" {
        run_tie(&model, inst, &inp, &mut ev);
        return ev;
    }

    macro_rules! by_ft {
        ($body:ident) => {
            if ft == "f32" {
                $body!(f32)
            } else {
                $body!(f64)
            }
        };
    }

    match model.as_str() {
        "kmeans" => {
            macro_rules! go {
                ($F:ty) => {{
                    let (x, _) = class_data(inst, 3);
                    let x: Array2<$F> = cast(&x);
                    let ds = DatasetBase::from(x.clone());
                    let k = if inst % 3 == 2 { 2 } else { 3 };
                    let init = x.slice(s![0..k, ..]).to_owned();
                    if inst % 3 == 2 {
                        let m = linfa_clustering::KMeans::params_with(k, rng(inst), L1Dist)
                            .init_method(linfa_clustering::KMeansInit::Precomputed(init))
                            .fit(&ds)
                            .expect("harness: kmeans fit");
                        let r1 = |r: ArrayView1<$F>, _pv: i64| -> Value {
                            let l: usize = m.predict(&r.to_owned());
                            json!([l as i64])
                        };
                        run_prog!(ev, inp, &m, $F, Array1<usize>, Some(&r1), views);
                    } else {
                        let p = linfa_clustering::KMeans::params_with(k, rng(inst), L2Dist);
                        let p = if inst % 3 == 1 { p.init_method(linfa_clustering::KMeansInit::Precomputed(init)) } else { p };
                        let m = p.fit(&ds).expect("harness: kmeans fit");
                        let r1 = |r: ArrayView1<$F>, _pv: i64| -> Value {
                            let l: usize = m.predict(&r);
                            json!([l as i64])
                        };
                        run_prog!(ev, inp, &m, $F, Array1<usize>, Some(&r1), views);
                    }
                }};
            }
            by_ft!(go)
        }
        "gmm" => {
            let (x, _) = class_data(inst, 3);
            let ds = DatasetBase::from(x);
            let k = if inst % 3 == 2 { 2 } else { 3 };
            let m = linfa_clustering::GaussianMixtureModel::params_with_rng(k, rng(7 + inst))
                .n_runs(2)
                .tolerance(1e-4)
                .fit(&ds)
                .expect("harness: gmm fit");
            run_prog!(ev, inp, &m, f64, Array1<usize>, None, views);
        }
        "ols" => {
            macro_rules! go {
                ($F:ty) => {{
                    let (x, y) = reg_data(inst, inp.nf);
                    let ds = DatasetBase::new(cast::<$F>(&x), cast1::<$F>(&y));
                    let m = linfa_linear::LinearRegression::new().with_intercept(inst % 3 != 2).fit(&ds).expect("harness: ols fit");
                    run_prog!(ev, inp, &m, $F, Array1<$F>, None, views);
                }};
            }
            by_ft!(go)
        }
        "isotonic" => {
            // noise 0.8 pools most points into a few blocks (instance 1); 0.25 / 0.1 keep many knots, so that
            // the query grid -1.5 .. 4.0 of the order family falls into different interior segments
            let noise = match inst % 3 {
                1 => 0.8,
                2 => 0.25,
                _ => 0.1,
            };
            // the records are passed in ascending order: linfa's fit reads the knot positions from the records
            // as given, so unsorted records yield a model whose knots are not increasing
            let x = cloud(400 + inst, if inst % 3 == 1 { 12 } else { 16 }, 1, -1.0, 3.5);
            let mut xs: Vec<f64> = x.iter().copied().collect();
            xs.sort_by(|a, b| a.partial_cmp(b).unwrap());
            let x = Array2::from_shape_vec((xs.len(), 1), xs).unwrap();
            let mut g = Lcg::new(500 + inst);
            let y: Array1<f64> = x.outer_iter().map(|r| r[0] * 1.25 + noise * g.sym()).collect();
            let ds = DatasetBase::new(x, y);
            let m = linfa_linear::IsotonicRegression::new().fit(&ds).expect("harness: isotonic fit");
            run_prog!(ev, inp, &m, f64, Array1<f64>, None, views);
        }
        "tweedie" => {
            let x = cloud(600 + inst, 14, inp.nf, -1.0, 3.5);
            let mut g = Lcg::new(700 + inst);
            let y: Array1<f64> = x.outer_iter().map(|r| (0.3 * r[0] - 0.2 * r[1] + 0.5).exp() + 0.25 * (g.sym() + 1.0)).collect();
            let ds = DatasetBase::new(x, y);
            let (power, alpha) = match inst % 3 {
                1 => (1.0, 0.0),
                2 => (0.0, 0.1),
                _ => (2.0, 0.01),
            };
            let m = linfa_linear::TweedieRegressor::params().power(power).alpha(alpha).fit(&ds).expect("harness: tweedie fit");
            run_prog!(ev, inp, &m, f64, Array1<f64>, None, views);
        }
        "enet" => {
            macro_rules! go {
                ($F:ty) => {{
                    let (x, y) = reg_data(inst, inp.nf);
                    let ds = DatasetBase::new(cast::<$F>(&x), cast1::<$F>(&y));
                    let (pen, l1) = match inst % 3 {
                        1 => (0.1, 0.5),
                        2 => (0.3, 1.0),
                        _ => (0.05, 0.0),
                    };
                    let m = linfa_elasticnet::ElasticNet::params()
                        .penalty(<$F>::of(pen))
                        .l1_ratio(<$F>::of(l1))
                        .with_intercept(inst % 3 != 2)
                        .fit(&ds)
                        .expect("harness: enet fit");
                    run_prog!(ev, inp, &m, $F, Array1<$F>, None, views);
                }};
            }
            by_ft!(go)
        }
        "mtenet" => {
            let (x, y) = reg_data(inst, inp.nf);
            let nt = 2 + (inst % 2) as usize;
            let y2 = Array2::from_shape_fn((y.len(), nt), |(i, t)| y[i] * (t as f64 + 1.0) - x[[i, 0]] * t as f64);
            let ds = DatasetBase::new(x, y2);
            let m = linfa_elasticnet::MultiTaskElasticNet::params().penalty(0.1).l1_ratio(0.5).fit(&ds).expect("harness: mtenet fit");
            run_prog!(ev, inp, &m, f64, Array2<f64>, None, views);
        }
        "logit" => {
            macro_rules! go {
                ($F:ty) => {{
                    let (x, y) = class_data(inst, 2);
                    let y = y.mapv(|l| if l == 1 { 7usize } else { 3usize });
                    let ds = DatasetBase::new(cast::<$F>(&x), y);
                    let m = linfa_logistic::LogisticRegression::default()
                        .alpha(<$F>::of(0.5))
                        .with_intercept(inst % 3 != 2)
                        .max_iterations(200)
                        .fit(&ds)
                        .expect("harness: logit fit");
                    let m = if inst % 3 == 0 { m.set_threshold(<$F>::of(0.25)) } else { m };
                    run_prog!(ev, inp, &m, $F, Array1<usize>, None, views);
                }};
            }
            by_ft!(go)
        }
        "mlogit" => {
            let (x, y) = class_data(inst, 3);
            let ds = DatasetBase::new(x, y.mapv(|l| 10 + l));
            let m = linfa_logistic::MultiLogisticRegression::default().alpha(0.5).max_iterations(200).fit(&ds).expect("harness: mlogit fit");
            run_prog!(ev, inp, &m, f64, Array1<usize>, None, views);
        }
        "svc" => {
            macro_rules! go {
                ($F:ty) => {{
                    let (x, y) = bool_data(inst);
                    let ds = DatasetBase::new(cast::<$F>(&x), y);
                    let p = linfa_svm::Svm::<$F, bool>::params();
                    let p = match inst % 3 {
                        1 => p.pos_neg_weights(<$F>::of(5.0), <$F>::of(5.0)).gaussian_kernel(<$F>::of(4.0)),
                        2 => p.pos_neg_weights(<$F>::of(1.0), <$F>::of(2.0)).linear_kernel(),
                        _ => p.nu_weight(<$F>::of(0.3)).polynomial_kernel(<$F>::of(1.0), <$F>::of(2.0)),
                    };
                    let m = p.fit(&ds).expect("harness: svc fit");
                    let r1 = |r: ArrayView1<$F>, _pv: i64| -> Value {
                        let b: bool = m.predict(r);
                        json!([b as i64])
                    };
                    run_prog!(ev, inp, &m, $F, Array1<bool>, Some(&r1), views);
                }};
            }
            by_ft!(go)
        }
        "svr" => {
            macro_rules! go {
                ($F:ty) => {{
                    let (x, y) = reg_data(inst, inp.nf);
                    let ds = DatasetBase::new(cast::<$F>(&x), cast1::<$F>(&y));
                    let p = linfa_svm::Svm::<$F, $F>::params();
                    let p = match inst % 3 {
                        1 => p.c_svr(<$F>::of(10.0), Some(<$F>::of(0.1))).linear_kernel(),
                        2 => p.nu_svr(<$F>::of(0.5), Some(<$F>::of(10.0))).gaussian_kernel(<$F>::of(8.0)),
                        _ => p.c_svr(<$F>::of(5.0), None).gaussian_kernel(<$F>::of(4.0)),
                    };
                    let m = p.fit(&ds).expect("harness: svr fit");
                    let r1 = |r: ArrayView1<$F>, _pv: i64| -> Value {
                        let v: $F = m.predict(r);
                        json!([code_s(v.to64(), scale(ext_vals(r)))])
                    };
                    run_prog!(ev, inp, &m, $F, Array1<$F>, Some(&r1), views);
                }};
            }
            by_ft!(go)
        }
        "svo" => {
            let x = cloud(800 + inst, 16, inp.nf, 0.0, 2.5);
            let ds = DatasetBase::new(x.clone(), Array1::<()>::from_elem(x.nrows(), ()));
            let p = linfa_svm::Svm::<f64, Pr>::params().nu_weight(if inst % 2 == 1 { 0.2 } else { 0.5 });
            let p = if inst % 3 == 2 { p.linear_kernel() } else { p.gaussian_kernel(3.0) };
            let m: linfa_svm::Svm<f64, bool> = p.fit(&ds).expect("harness: one-class fit");
            let r1 = |r: ArrayView1<f64>, _pv: i64| -> Value {
                let b: bool = m.predict(r);
                json!([b as i64])
            };
            run_prog!(ev, inp, &m, f64, Array1<bool>, Some(&r1), views);
        }
        "svp" => {
            // SVM with Platt-calibrated probabilities: kind "platt" (member 1 = decision value)
            let (x, y) = bool_data(inst);
            let ds = DatasetBase::new(x, y);
            let p = linfa_svm::Svm::<f64, Pr>::params();
            let p = match inst % 3 {
                1 => p.pos_neg_weights(5.0, 5.0).gaussian_kernel(4.0),
                2 => p.pos_neg_weights(1.0, 1.0).linear_kernel(),
                _ => p.nu_weight(0.4).gaussian_kernel(8.0),
            };
            let m: linfa_svm::Svm<f64, Pr> = p.fit(&ds).expect("harness: svm-pr fit");
            let js = serde_json::to_value(&m).expect("harness: svm serde");
            let ab = js.get("probability_coeffs").and_then(|v| v.as_array()).expect("harness: probability_coeffs");
            ev.push(params_event(ab[0].as_f64().unwrap(), ab[1].as_f64().unwrap()));
            for (i, row) in inp.pool.iter().enumerate() {
                let x: Array2<f64> = backing::<f64>(&[row], inp.nf, "c");
                let dv = m.weighted_sum(&x.row(0)) - m.rho;
                ev.push(json!({"ev": "member", "j": 1, "id": i + 1, "out": [code_s(dv, scale(ext_cells(row)))]}));
            }
            let r1 = |r: ArrayView1<f64>, _pv: i64| -> Value {
                let p: Pr = m.predict(r);
                json!([code(*p as f64)])
            };
            run_prog!(ev, inp, &m, f64, Array1<Pr>, Some(&r1), views);
        }
        "tree" => {
            macro_rules! go {
                ($F:ty) => {{
                    let (x, y) = class_data(inst, 3);
                    let ds = DatasetBase::new(cast::<$F>(&x), y);
                    let p = linfa_trees::DecisionTree::<$F, usize>::params();
                    let p = match inst % 3 {
                        1 => p.max_depth(Some(3)),
                        2 => p.split_quality(linfa_trees::SplitQuality::Entropy).max_depth(Some(4)),
                        _ => p.max_depth(Some(2)).min_weight_leaf(2.0),
                    };
                    let m = p.fit(&ds).expect("harness: tree fit");
                    run_prog!(ev, inp, &m, $F, Array1<usize>, None, views);
                }};
            }
            by_ft!(go)
        }
        "gnb" => {
            macro_rules! go {
                ($F:ty) => {{
                    // inst 4: two mirror-image classes, so that the pool row (3, 1) is an exact tie
                    let (x, y) = if inst == 4 {
                        (ndarray::array![[0.0, 1.0], [2.0, 1.0], [4.0, 1.0], [6.0, 1.0]], ndarray::array![0usize, 0, 1, 1])
                    } else {
                        class_data(inst, 3)
                    };
                    let ds = DatasetBase::new(cast::<$F>(&x), y);
                    let m = linfa_bayes::GaussianNb::<$F, usize>::params().fit(&ds).expect("harness: gnb fit");
                    run_prog!(ev, inp, &m, $F, Array1<usize>, None, views);
                }};
            }
            by_ft!(go)
        }
        "mnb" => {
            // inst 4: mirror-image count profiles, so that the pool row (1, 1) is an exact tie
            let (x, y) = if inst == 4 {
                (ndarray::array![[3.0, 1.0], [1.0, 3.0]], ndarray::array![0usize, 1])
            } else {
                let (x, y) = class_data(inst, 3);
                (x.mapv(|v| (v + 2.0).max(0.0)), y)
            };
            let ds = DatasetBase::new(x, y);
            let m = linfa_bayes::MultinomialNb::<f64, usize>::params().alpha(if inst % 2 == 1 { 1.0 } else { 0.5 }).fit(&ds).expect("harness: mnb fit");
            run_prog!(ev, inp, &m, f64, Array1<usize>, None, views);
        }
        "ftrl" => {
            let (x, y) = bool_data(inst);
            let ds = DatasetBase::new(x, y);
            let p = linfa_ftrl::Ftrl::<f64>::params_with_rng(rng(11 + inst)).alpha(0.5).l1_ratio(0.01).check().expect("harness: ftrl params");
            let mut m = linfa_ftrl::Ftrl::new(p.clone(), inp.nf);
            for _ in 0..(3 + inst) {
                m = p.fit_with(Some(m), &ds).expect("harness: ftrl fit");
            }
            run_prog!(ev, inp, &m, f64, Array1<Pr>, None, views);
        }
        "pca" => {
            let x = cloud(900 + inst, 12, inp.nf, -1.0, 3.5);
            let ds = DatasetBase::from(x);
            let m = linfa_reduction::Pca::params(2).whiten(inst % 3 == 2).fit(&ds).expect("harness: pca fit");
            run_prog!(ev, inp, &m, f64, Array2<f64>, None, views);
        }
        "pls" => {
            let (x, y) = reg_data(inst, inp.nf);
            let y2 = Array2::from_shape_fn((y.len(), 2), |(i, t)| if t == 0 { y[i] } else { x[[i, 1]] - 0.5 * y[i] + x[[i, 2]] });
            let ds = DatasetBase::new(x, y2);
            match inst % 3 {
                1 => {
                    let m = linfa_pls::PlsRegression::<f64>::params(2).fit(&ds).expect("harness: pls fit");
                    run_prog!(ev, inp, &m, f64, Array2<f64>, None, views);
                }
                2 => {
                    let m = linfa_pls::PlsCanonical::<f64>::params(2).fit(&ds).expect("harness: pls fit");
                    run_prog!(ev, inp, &m, f64, Array2<f64>, None, views);
                }
                _ => {
                    let m = linfa_pls::PlsCca::<f64>::params(1).fit(&ds).expect("harness: pls fit");
                    run_prog!(ev, inp, &m, f64, Array2<f64>, None, views);
                }
            }
        }
        "ica" => {
            let x = cloud(1000 + inst, 20, inp.nf, -1.0, 3.5);
            let ds = DatasetBase::from(x);
            let m = linfa_ica::fast_ica::FastIca::params().ncomponents(2).random_state(3 + inst as usize).fit(&ds).expect("harness: ica fit");
            run_prog!(ev, inp, &m, f64, Array2<f64>, None, noviews);
        }
        // ---------------------------------------------------------------- composing wrappers
        "mt" => {
            let nm = geti(inpv, "nm") as usize;
            let mem = gets(inpv, "mem");
            if mem == "mock" {
                let members: Vec<Arc<MockReg>> = (0..nm).map(|j| Arc::new(MockReg { j })).collect();
                for (j, m) in members.iter().enumerate() {
                    member_events::<Array1<f64>>(&mut ev, &inp, j + 1, &**m);
                }
                let w: MultiTargetModel<Array2<f64>, f64> = members.iter().map(|m| Share(m.clone())).collect();
                run_prog!(ev, inp, &w, f64, Array2<f64>, None, noviews);
            } else if mem == "tree" {
                // label-valued members: one decision tree per relabelling of the classes
                let (x, y) = class_data(inst, 3);
                let mut boxes: Vec<Box<dyn PredictInplace<Array2<f64>, Array1<usize>>>> = vec![];
                for j in 0..nm {
                    let yj = y.mapv(|l| (l + j) % 3 + 10 * j);
                    let ds = DatasetBase::new(x.clone(), yj);
                    let t = Arc::new(linfa_trees::DecisionTree::<f64, usize>::params().max_depth(Some(2 + j)).fit(&ds).expect("harness: tree fit"));
                    member_events::<Array1<usize>>(&mut ev, &inp, j + 1, &*t);
                    boxes.push(Box::new(Share(t)));
                }
                let w = MultiTargetModel::new(boxes);
                run_prog!(ev, inp, &w, f64, Array2<usize>, None, noviews);
            } else {
                // real regressors of different types behind one wrapper
                let (x, y) = reg_data(inst, inp.nf);
                let mut boxes: Vec<Box<dyn PredictInplace<Array2<f64>, Array1<f64>>>> = vec![];
                for j in 0..nm {
                    let yj = y.mapv(|v| v * (1.0 + j as f64) - j as f64);
                    let ds = DatasetBase::new(x.clone(), yj);
                    match (j + inst as usize) % 3 {
                        0 => {
                            let m = Arc::new(linfa_linear::LinearRegression::new().fit(&ds).expect("harness: ols fit"));
                            member_events::<Array1<f64>>(&mut ev, &inp, j + 1, &*m);
                            boxes.push(Box::new(Share(m)));
                        }
                        1 => {
                            let m = Arc::new(linfa_elasticnet::ElasticNet::params().penalty(0.1).l1_ratio(0.5).fit(&ds).expect("harness: enet fit"));
                            member_events::<Array1<f64>>(&mut ev, &inp, j + 1, &*m);
                            boxes.push(Box::new(Share(m)));
                        }
                        _ => {
                            let m = Arc::new(linfa_svm::Svm::<f64, f64>::params().c_svr(10.0, Some(0.1)).linear_kernel().fit(&ds).expect("harness: svr fit"));
                            member_events::<Array1<f64>>(&mut ev, &inp, j + 1, &*m);
                            boxes.push(Box::new(Share(m)));
                        }
                    }
                }
                let w = MultiTargetModel::new(boxes);
                run_prog!(ev, inp, &w, f64, Array2<f64>, None, noviews);
            }
        }
        "mc" => {
            let nm = geti(inpv, "nm") as usize;
            let mem = gets(inpv, "mem");
            let labels: Vec<usize> = ivec(&inpv["labels"]).into_iter().map(|x| x as usize).collect();
            let mut pairs: Vec<(usize, Box<dyn PredictInplace<Array2<f64>, Array1<Pr>>>)> = vec![];
            if mem == "mock" {
                let tab = imat(&inpv["tab"]);
                for j in 0..nm {
                    let m = Arc::new(MockPr { pool: inp.pool.clone(), tab: tab[j].clone() });
                    member_events::<Array1<Pr>>(&mut ev, &inp, j + 1, &*m);
                    pairs.push((labels[j], Box::new(Share(m))));
                }
            } else {
                // one-vs-rest members of different types: SVM with Platt probabilities, FTRL, Platt over OLS
                let (x, y) = class_data(inst, 3);
                for j in 0..nm {
                    let yb = y.mapv(|l| l == j % 3);
                    let ds = DatasetBase::new(x.clone(), yb.clone());
                    match (j + inst as usize) % 3 {
                        0 => {
                            let m: Arc<linfa_svm::Svm<f64, Pr>> =
                                Arc::new(linfa_svm::Svm::<f64, Pr>::params().pos_neg_weights(5.0, 5.0).gaussian_kernel(4.0).fit(&ds).expect("harness: svm fit"));
                            member_events::<Array1<Pr>>(&mut ev, &inp, j + 1, &*m);
                            pairs.push((labels[j], Box::new(Share(m))));
                        }
                        1 => {
                            let p = linfa_ftrl::Ftrl::<f64>::params_with_rng(rng(5 + j as u64)).alpha(0.5).check().expect("harness: ftrl params");
                            let mut m = linfa_ftrl::Ftrl::new(p.clone(), inp.nf);
                            for _ in 0..4 {
                                m = p.fit_with(Some(m), &ds).expect("harness: ftrl fit");
                            }
                            let m = Arc::new(m);
                            member_events::<Array1<Pr>>(&mut ev, &inp, j + 1, &*m);
                            pairs.push((labels[j], Box::new(Share(m))));
                        }
                        _ => {
                            let dsr = DatasetBase::new(x.clone(), yb.mapv(|b| if b { 1.0 } else { -1.0 }));
                            let ols = linfa_linear::LinearRegression::new().fit(&dsr).expect("harness: ols fit");
                            let m = Arc::new(Platt::<f64, _>::params().check().expect("harness: platt params").fit_with(ols, &ds).expect("harness: platt fit"));
                            member_events::<Array1<Pr>>(&mut ev, &inp, j + 1, &*m);
                            pairs.push((labels[j], Box::new(Share(m))));
                        }
                    }
                }
            }
            let w = MultiClassModel::new(pairs);
            run_prog!(ev, inp, &w, f64, Array1<usize>, None, noviews);
        }
        "platt" => {
            let mem = gets(inpv, "mem");
            let (x, yb) = bool_data(inst);
            let dsb = DatasetBase::new(x.clone(), yb.clone());
            let dsr = DatasetBase::new(x.clone(), yb.mapv(|b| if b { 1.0 } else { -1.0 }));
            let pp = Platt::<f64, ()>::params().check().expect("harness: platt params");
            macro_rules! with_inner {
                ($inner:expr) => {{
                    let inner = Arc::new($inner);
                    member_events::<Array1<f64>>(&mut ev, &inp, 1, &*inner);
                    let pp = Platt::params().check().expect("harness: platt params");
                    let m = pp.fit_with(Share(inner.clone()), &dsb).expect("harness: platt fit");
                    let (a, b) = platt_ab(&format!("{:?}", m));
                    ev.push(params_event(a, b));
                    run_prog!(ev, inp, &m, f64, Array1<Pr>, None, noviews);
                }};
            }
            let _ = pp;
            match mem {
                "mock" => with_inner!(MockDec),
                "ols" => with_inner!(linfa_linear::LinearRegression::new().fit(&dsr).expect("harness: ols fit")),
                "svr" => with_inner!(linfa_svm::Svm::<f64, f64>::params().c_svr(10.0, Some(0.1)).gaussian_kernel(4.0).fit(&dsr).expect("harness: svr fit")),
                _ => with_inner!(linfa_elasticnet::ElasticNet::params().penalty(0.05).l1_ratio(0.5).fit(&dsr).expect("harness: enet fit")),
            }
        }
        other => panic!("harness: unknown model {}", other),
    }
    let _ = Axis(0);
    ev
}

/// The tie family: instances with an exact mirror symmetry (x -> -x is exact in floating point) and pool rows
/// exactly on the decision boundary. Which label such a row gets is not prescribed; the per-sample clause
/// only demands the same label through every form, batch and prior content of the output buffer.
fn run_tie(model: &str, inst: u64, inp: &Inp, ev: &mut Vec<Value>) {
    use ndarray::array;
    let dbg = std::env::var("VH_DEBUG").is_ok();
    match model {
        "kmeans" => {
            // centroids (-2,1), (2,1), (0,10) exactly (precomputed = converged); rows (0, y) are equidistant from 0 and 1
            let x = array![[-2.0, 0.0], [-2.0, 2.0], [2.0, 0.0], [2.0, 2.0], [-0.5, 10.0], [0.5, 10.0]];
            let init = array![[-2.0, 1.0], [2.0, 1.0], [0.0, 10.0]];
            let ds = DatasetBase::from(x);
            macro_rules! km {
                ($d:expr) => {{
                    let m = linfa_clustering::KMeans::params_with(3, rng(inst), $d)
                        .init_method(linfa_clustering::KMeansInit::Precomputed(init.clone()))
                        .fit(&ds)
                        .expect("harness: kmeans fit");
                    if dbg {
                        eprintln!("kmeans tie centroids {:?}", m.centroids());
                    }
                    let r1 = |r: ArrayView1<f64>, pv: i64| -> Value {
                        let l: usize = if pv >= 0 {
                            let mut l = pv as usize;
                            PredictInplace::predict_inplace(&m, &r, &mut l);
                            l
                        } else {
                            m.predict(&r)
                        };
                        json!([l as i64])
                    };
                    run_prog!(ev, inp, &m, f64, Array1<usize>, Some(&r1), views);
                }};
            }
            match inst % 3 {
                2 => km!(L2Dist),
                0 => km!(L1Dist),
                _ => km!(linfa_nn::distance::LInfDist),
            }
        }
        "gmm" => {
            // two mirror-image blobs 60 apart: the cross responsibilities underflow to exactly 0, so the two
            // components are exact mirror images and the rows (0, y) have two equal weighted log-probabilities
            let a = [[-30.0, 0.0], [-30.0, 2.0], [-29.0, 1.0], [-31.0, 1.0], [-30.0, 1.0], [-29.5, 0.5], [-30.5, 1.5]];
            let mut v = vec![];
            for r in a.iter() {
                v.push(*r);
                v.push([-r[0], r[1]]);
            }
            let x = Array2::from_shape_fn((v.len(), 2), |(i, j)| v[i][j]);
            let ds = DatasetBase::from(x);
            let m = linfa_clustering::GaussianMixtureModel::params_with_rng(2, rng(7 + inst))
                .n_runs(1)
                .tolerance(1e-6)
                .fit(&ds)
                .expect("harness: gmm fit");
            if dbg {
                eprintln!("gmm tie means {:?} proba(0,1) {:?}", m.means(), m.predict_proba(&array![[0.0, 1.0], [0.0, 3.0]]));
            }
            run_prog!(ev, inp, &m, f64, Array1<usize>, None, views);
        }
        "logit" => {
            // no intercept, second feature identically 0 in training: w = (w1, 0) exactly, rows (0, y) score 0 -> p = 0.5
            let x = array![[-2.0, 0.0], [-1.0, 0.0], [0.5, 0.0], [-0.5, 0.0], [1.0, 0.0], [2.0, 0.0]];
            let y = array![3usize, 3, 3, 7, 7, 7];
            let ds = DatasetBase::new(x, y);
            let m = linfa_logistic::LogisticRegression::default().alpha(0.5).with_intercept(false).max_iterations(200).fit(&ds).expect("harness: logit fit");
            if dbg {
                eprintln!("logit tie params {:?} proba {:?}", m.params(), m.predict_probabilities(&array![[0.0, 1.0]]));
            }
            let m = if inst % 3 == 0 { m.set_threshold(0.5) } else { m };
            run_prog!(ev, inp, &m, f64, Array1<usize>, None, views);
        }
        "mlogit" => {
            // no intercept: the row (0, 0) scores exactly 0 for every class
            let (x, y) = class_data(inst, 3);
            let ds = DatasetBase::new(x, y.mapv(|l| 10 + l));
            let m = linfa_logistic::MultiLogisticRegression::default().alpha(0.5).with_intercept(false).max_iterations(200).fit(&ds).expect("harness: mlogit fit");
            run_prog!(ev, inp, &m, f64, Array1<usize>, None, views);
        }
        "svc" => {
            // origin-symmetric classes on the first axis, second feature identically 0: hyperplane x1 = 0
            let x = array![[1.0, 0.0], [2.0, 0.0], [-1.0, 0.0], [-2.0, 0.0]];
            let y = array![true, true, false, false];
            let ds = DatasetBase::new(x, y);
            let p = linfa_svm::Svm::<f64, bool>::params();
            let p = match inst % 3 {
                2 => p.pos_neg_weights(1.0, 1.0).linear_kernel(),
                0 => p.nu_weight(0.5).linear_kernel(),
                _ => p.pos_neg_weights(1.0, 1.0).gaussian_kernel(4.0),
            };
            let m = p.fit(&ds).expect("harness: svc fit");
            if dbg {
                eprintln!("svc tie inst {} rho {:e} dv(0,1) {:e} alpha {:?}", inst, m.rho, m.weighted_sum(&array![0.0, 1.0]) - m.rho, m.alpha);
            }
            let r1 = |r: ArrayView1<f64>, _pv: i64| -> Value {
                let b: bool = m.predict(r);
                json!([b as i64])
            };
            run_prog!(ev, inp, &m, f64, Array1<bool>, Some(&r1), views);
        }
        "svo" => {
            // one-class, linear kernel, all training rows equal to (1, 0): w = (1, 0) * sum(alpha), rho = w . (1, 0)
            let x = array![[1.0, 0.0], [1.0, 0.0], [1.0, 0.0], [1.0, 0.0]];
            let ds = DatasetBase::new(x.clone(), Array1::<()>::from_elem(x.nrows(), ()));
            let nu = match inst % 3 {
                2 => 0.5,
                0 => 0.25,
                _ => 0.75,
            };
            let m: linfa_svm::Svm<f64, bool> = linfa_svm::Svm::<f64, Pr>::params().nu_weight(nu).linear_kernel().fit(&ds).expect("harness: one-class fit");
            if dbg {
                eprintln!("svo tie inst {} rho {:e} dv(1,3) {:e}", inst, m.rho, m.weighted_sum(&array![1.0, 3.0]) - m.rho);
            }
            let r1 = |r: ArrayView1<f64>, _pv: i64| -> Value {
                let b: bool = m.predict(r);
                json!([b as i64])
            };
            run_prog!(ev, inp, &m, f64, Array1<bool>, Some(&r1), views);
        }
        "tree" => {
            // feature 0 takes the values -1 / 1 (labels 0 / 1) and 1 / 3 (labels 1 / 2): thresholds exactly 0 and 2
            let x = array![[-1.0, 5.0], [-1.0, 6.0], [1.0, 5.0], [1.0, 6.0], [3.0, 5.0], [3.0, 6.0]];
            let y = array![0usize, 0, 1, 1, 2, 2];
            let ds = DatasetBase::new(x, y);
            let p = linfa_trees::DecisionTree::<f64, usize>::params();
            let p = if inst % 3 == 0 { p.split_quality(linfa_trees::SplitQuality::Entropy) } else { p };
            let m = p.fit(&ds).expect("harness: tree fit");
            run_prog!(ev, inp, &m, f64, Array1<usize>, None, views);
        }
        other => panic!("harness: no tie instance for {}", other),
    }
}

fn main() {
    run_cases(run);
}
