//! X01 harness: isotonic regression (`linfa_linear::IsotonicRegression`).
//! kind "fit":   fit on (x, y[, w]) and log the published knots (regressor / response, read through the
//!               public `Serialize` impl: the fields are private) and the predictions at the queries q/2.
//! kind "shape": one shape mismatch (records with 2 columns, targets of another length, query matrix with
//!               2 columns, output buffer of another length) -- only accepted / rejected is logged.
//! Floats are logged as round(v * 1e6); non-finite or huge values as the sentinel 2^30 (the trace
//! specification compares integers only). Knot abscissae are integers on the generated inputs: logged as
//! integers plus one flag `rexact`. The harness contains no oracle logic.
use linfa::dataset::DatasetBase;
use linfa::traits::{Fit, Predict, PredictInplace};
use linfa_linear::IsotonicRegression;
use ndarray::{Array1, Array2};
use vh::serde_json::{json, Value};
use vh::*;

const S: f64 = 1e6;
const BAD: i64 = 1 << 30;

fn fxs(v: f64) -> i64 {
    let x = (v * S).round();
    if !x.is_finite() || x.abs() >= 1e9 {
        BAD
    } else {
        x as i64
    }
}

/// the "data" array of an ndarray serialised by serde (`{"v":1,"dim":[m],"data":[...]}`)
fn serde_vec(model: &Value, field: &str) -> Vec<f64> {
    model
        .get(field)
        .and_then(|a| a.get("data"))
        .and_then(|d| d.as_array())
        .map(|d| d.iter().map(|x| x.as_f64().unwrap_or(f64::NAN)).collect())
        .unwrap_or_else(|| panic!("harness: model has no field {}", field))
}

fn knots_event(model: &Value) -> Value {
    let r = serde_vec(model, "regressor");
    let v = serde_vec(model, "response");
    let rexact = r.iter().all(|x| x.is_finite() && x.abs() < 1e9 && (x - x.round()).abs() <= 1e-9);
    let ri: Vec<i64> = r.iter().map(|x| if x.is_finite() && x.abs() < 1e9 { x.round() as i64 } else { BAD }).collect();
    let vi: Vec<i64> = v.iter().map(|x| fxs(*x)).collect();
    json!({"ev": "fit", "res": "ok", "r": ri, "rexact": rexact, "v": vi})
}

macro_rules! run_typed {
    ($F:ty, $kind:expr, $inp:expr) => {{
        let inp: &Value = $inp;
        let xs = ivec(&inp["x"]);
        let ys = ivec(&inp["y"]);
        let qs = ivec(&inp["q"]);
        let n = xs.len();
        let what = inp.get("what").and_then(|s| s.as_str()).unwrap_or("none").to_string();
        let d = inp.get("d").and_then(|s| s.as_i64()).unwrap_or(0);
        let mut ev: Vec<Value> = vec![];

        // records: n x 1 (fit_dim: n x 2, the abscissa repeated in both columns)
        let cols = if what == "fit_dim" { 2 } else { 1 };
        let x = Array2::<$F>::from_shape_fn((n, cols), |(i, _)| xs[i] as $F);
        let ylen = if what == "fit_len" { (n as i64 + d) as usize } else { n };
        let y = Array1::<$F>::from_shape_fn(ylen, |i| ys[i % n] as $F);
        let ws: Vec<i64> = inp.get("w").map(ivec).unwrap_or_default();

        let fitted = guarded(|| {
            let mut ds = DatasetBase::new(x.clone(), y.clone());
            if !ws.is_empty() {
                ds = ds.with_weights(Array1::<f32>::from_shape_fn(ws.len(), |i| ws[i] as f32));
            }
            IsotonicRegression::new().fit(&ds)
        });
        let model = match fitted {
            Ok(Ok(m)) => Some(m),
            Ok(Err(_)) => {
                ev.push(json!({"ev": "fit", "res": "err", "r": [], "rexact": false, "v": []}));
                None
            }
            Err(_) => {
                ev.push(json!({"ev": "fit", "res": "panic", "r": [], "rexact": false, "v": []}));
                None
            }
        };
        if let Some(model) = model {
            ev.push(knots_event(&serde_json::to_value(&model).expect("serialise model")));
            // queries q/2 ; pred_dim: two columns ; pred_len: caller's buffer of another length
            let qcols = if what == "pred_dim" { 2 } else { 1 };
            let q = Array2::<$F>::from_shape_fn((qs.len(), qcols), |(i, _)| (qs[i] as $F) / (2.0 as $F));
            let pred = guarded(|| {
                if what == "pred_len" {
                    let mut out = Array1::<$F>::zeros((qs.len() as i64 + d) as usize);
                    model.predict_inplace(&q, &mut out);
                    out
                } else {
                    model.predict(&q)
                }
            });
            match pred {
                Ok(p) => ev.push(json!({"ev": "pred", "res": "ok", "p": p.iter().map(|v| fxs(*v as f64)).collect::<Vec<i64>>()})),
                Err(_) => ev.push(json!({"ev": "pred", "res": "panic", "p": []})),
            }
        }
        let _ = $kind;
        ev
    }};
}

fn run(case: &Value) -> Vec<Value> {
    let kind = gets(case, "kind").to_string();
    let inp = &case["inp"];
    match gets(inp, "ty") {
        "f32" => run_typed!(f32, kind, inp),
        _ => run_typed!(f64, kind, inp),
    }
}

fn main() {
    run_cases(run);
}
