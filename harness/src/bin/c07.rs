//! C07 harness: nearest-neighbour indices (linear scan, k-d tree, ball tree) of linfa-nn.
//! A case carries an integer point set, one query point, a metric, lists of k values (negative = code
//! for a huge k, see `k_of`) and radii
//! (in eighths: r = r8 / 8, exactly representable), an optional scale `sc` (a power of two: the real
//! coordinates are pts / sc, q / sc and the real radius r8 / (8 sc) -- sub-unit data, still exact in
//! binary floating point; observations are multiplied back by sc) and a list of *sessions*; a session builds one
//! index (kind, float type, leaf size, memory layout) through the public API and runs every query
//! of the case on it. Everything the API returns is logged (positions and coordinates, as
//! integers + an exactness flag); nothing is judged here.
use linfa::Float;
use linfa_nn::{
    distance::*, BallTree, BallTreeIndex, CommonNearestNeighbour, KdTree, KdTreeIndex, LinearSearch, LinearSearchIndex,
    NearestNeighbour, NearestNeighbourIndex,
};
use ndarray::{s, Array1, Array2, ArrayView1, ArrayView2, ShapeBuilder};
use vh::serde_json::{json, Value};
use vh::*;

/// (point, position) list -> {"pos": [...], "pts": [[...], ...], "exact": all coordinates are integers}
fn scale_of(inp: &Value) -> f64 {
    inp.get("sc").and_then(|x| x.as_i64()).unwrap_or(1) as f64
}

fn enc<F: Float>(res: &[(ArrayView1<F>, usize)], sc: f64) -> Value {
    let mut exact = true;
    let mut pos = Vec::new();
    let mut pts = Vec::new();
    for (p, i) in res {
        pos.push(json!(*i as i64));
        let mut row = Vec::new();
        for v in p.iter() {
            let x = v.to_f64().unwrap_or(f64::NAN) * sc;
            if !x.is_finite() || x != x.round() || x.abs() > 1.0e9 {
                exact = false;
                row.push(json!(0));
            } else {
                row.push(json!(x as i64));
            }
        }
        pts.push(Value::Array(row));
    }
    json!({"pos": pos, "pts": pts, "exact": exact})
}

fn empty_res() -> Value {
    json!({"pos": [], "pts": [], "exact": true})
}

/// lattice value x at scale sc -> x / sc (sc a power of two: exact)
fn to_fs<F: Float>(x: i64, sc: f64) -> F {
    F::from(x as f64 / sc).unwrap()
}

fn to_f<F: Float>(x: i64) -> F {
    F::from(x as f64).unwrap()
}

fn qvec<F: Float>(q: &[i64], sc: f64) -> Array1<F> {
    Array1::from(q.iter().map(|x| to_fs::<F>(*x, sc)).collect::<Vec<F>>())
}

/// all queries of the case on one built index
// ------------------------------------------------------------------------------------------------
// k values far beyond n.  A negative entry of `ks` is a code for a huge k:
//   -1 = usize::MAX, -2 = usize::MAX / 2, -3 = 2^32, -4 = 10^12
// Codes <= -3 are *isolated*: an index that allocates for k elements may hit an allocation failure,
// which aborts the process (not a catchable panic).  Those queries are run in a child process (this
// binary re-executed with `--probe`, once per case, rebuilding the case's sessions and running only
// the isolated queries); the parent records the child's answers, or status "abort" for every query
// the child did not answer before it died.

fn k_of(code: i64) -> usize {
    match code {
        -1 => usize::MAX,
        -2 => usize::MAX / 2,
        -3 => 1usize << 32,
        -4 => 1_000_000_000_000usize,
        c if c >= 0 => c as usize,
        c => panic!("unknown k code {}", c),
    }
}
fn isolated(code: i64) -> bool {
    code <= -3
}

#[derive(Default)]
struct Probe {
    child: bool,                              // this process is the probe child
    sess: usize,                              // index of the session being run
    answers: serde_json::Map<String, Value>,  // parent: "<session>:<code>" -> recorded query outcome
    dead: bool,                               // parent: the child died at an earlier query of this case
}
thread_local! {
    static PROBE: std::cell::RefCell<Probe> = std::cell::RefCell::new(Probe::default());
}

fn one_knn<F: Float>(ix: &dyn NearestNeighbourIndex<F>, q: &Array1<F>, k: i64, sc: f64) -> Value {
    let r = guarded(|| ix.k_nearest(q.view(), k_of(k)).map(|v| enc(&v, sc)));
    match r {
        Ok(Ok(v)) => json!({"k": k, "st": "ok", "res": v}),
        Ok(Err(_)) => json!({"k": k, "st": "err", "res": empty_res()}),
        Err(m) => json!({"k": k, "st": "panic", "res": empty_res(), "msg": m}),
    }
}

fn queries<F: Float>(ix: &dyn NearestNeighbourIndex<F>, inp: &Value, ev: &mut serde_json::Map<String, Value>) {
    let sc = scale_of(inp);
    let q: Array1<F> = qvec(&ivec(&inp["q"]), sc);
    let (child, si) = PROBE.with(|p| (p.borrow().child, p.borrow().sess));
    if child {
        // probe child: only the isolated k values; every answer is written out at once
        use std::io::Write;
        for k in ivec(&inp["ks"]).into_iter().filter(|k| isolated(*k)) {
            let v = one_knn(ix, &q, k, sc);
            let mut o = std::io::stdout().lock();
            let _ = writeln!(o, "{}", json!({"key": format!("{}:{}", si, k), "val": v}));
            let _ = o.flush();
        }
        return;
    }
    let mut knn = Vec::new();
    for k in ivec(&inp["ks"]) {
        if isolated(k) {
            let got = PROBE.with(|p| p.borrow().answers.get(&format!("{}:{}", si, k)).cloned());
            knn.push(match got {
                Some(v) => v,
                None => {
                    // the first unanswered query is the one the child died in; later ones were never run
                    let was_dead = PROBE.with(|p| std::mem::replace(&mut p.borrow_mut().dead, true));
                    json!({"k": k, "st": if was_dead { "notrun" } else { "abort" }, "res": empty_res()})
                }
            });
        } else {
            knn.push(one_knn(ix, &q, k, sc));
        }
    }
    ev.insert("knn".into(), Value::Array(knn));
    let mut rng = Vec::new();
    for r8 in ivec(&inp["r8s"]) {
        let rad = F::from(r8 as f64 / (8.0 * sc)).unwrap();
        let r = guarded(|| ix.within_range(q.view(), rad).map(|v| enc(&v, sc)));
        rng.push(match r {
            Ok(Ok(v)) => json!({"r8": r8, "st": "ok", "res": v}),
            Ok(Err(_)) => json!({"r8": r8, "st": "err", "res": empty_res()}),
            Err(m) => json!({"r8": r8, "st": "panic", "res": empty_res(), "msg": m}),
        });
    }
    ev.insert("rng".into(), Value::Array(rng));
    // malformed queries (wrong dimension): one k-nearest and one range call each
    let mut bad = Vec::new();
    for bq in geta(inp, "badq") {
        let b: Array1<F> = qvec(&ivec(bq), sc);
        let st = |r: Result<Result<usize, ()>, String>| match r {
            Ok(Ok(_)) => "ok",
            Ok(Err(_)) => "err",
            Err(_) => "panic",
        };
        let a = st(guarded(|| ix.k_nearest(b.view(), 1).map(|v| v.len()).map_err(|_| ())));
        let c = st(guarded(|| ix.within_range(b.view(), F::from(1.0).unwrap()).map(|v| v.len()).map_err(|_| ())));
        bad.push(json!({"qd": b.len(), "knn": a, "rng": c}));
    }
    ev.insert("bad".into(), Value::Array(bad));
}

// ------------------------------------------------------------------------------------------------
// Structure of a built ball tree, read from the public `Debug` output of `BallTreeIndex`
// (`BallTreeIndex { tree: Branch { center: [..], shape=.., radius: r, left: .., right: .. } | Leaf {
// center: [..], .., radius: r, points: [([..], .., pos), ..] }, dist_fn: .., dim: d, len: n }`).
// Logged per node (pre-order): leaf flag, finiteness, centre and radius in hundredths (of the lattice unit), positions,
// child indices (1-based, 0 = none).

struct Cur<'a> {
    s: &'a str,
    i: usize,
    sc: f64, // centre and radius are logged multiplied by the case's scale
}
impl<'a> Cur<'a> {
    fn eat(&mut self, t: &str) -> Option<()> {
        if self.s[self.i..].starts_with(t) {
            self.i += t.len();
            Some(())
        } else {
            None
        }
    }
    fn upto(&mut self, t: &str) -> Option<&'a str> {
        let j = self.s[self.i..].find(t)?;
        let r = &self.s[self.i..self.i + j];
        self.i += j + t.len();
        Some(r)
    }
    /// `[a, b, ..], shape=[..], strides=[..], layout=.., const ndim=1`
    fn arr(&mut self) -> Option<Vec<f64>> {
        self.eat("[")?;
        let body = self.upto("]")?;
        let v: Option<Vec<f64>> = if body.trim().is_empty() { Some(vec![]) } else { body.split(", ").map(|x| x.trim().parse::<f64>().ok()).collect() };
        self.upto("const ndim=1")?;
        v
    }
    fn node(&mut self, out: &mut Vec<Value>) -> Option<usize> {
        let me = out.len();
        out.push(Value::Null);
        if self.eat("Leaf { center: ").is_some() {
            let c = self.arr()?;
            self.eat(", radius: ")?;
            let r: f64 = self.upto(", points: [")?.parse().ok()?;
            let mut pos = Vec::new();
            loop {
                if self.eat("]").is_some() {
                    break;
                }
                self.eat(", ");
                self.eat("(")?;
                self.arr()?;
                self.eat(", ")?;
                pos.push(self.upto(")")?.parse::<i64>().ok()?);
            }
            self.eat(" }")?;
            out[me] = json!({"lf": true, "fin": all_finite(c.iter()) && r.is_finite(), "c": fxv(c.iter(), 100.0 * self.sc), "r": fx(r, 100.0 * self.sc), "p": pos, "l": 0, "rt": 0});
        } else {
            self.eat("Branch { center: ")?;
            let c = self.arr()?;
            self.eat(", radius: ")?;
            let r: f64 = self.upto(", left: ")?.parse().ok()?;
            let l = self.node(out)?;
            self.eat(", right: ")?;
            let rt = self.node(out)?;
            self.eat(" }")?;
            out[me] = json!({"lf": false, "fin": all_finite(c.iter()) && r.is_finite(), "c": fxv(c.iter(), 100.0 * self.sc), "r": fx(r, 100.0 * self.sc), "p": [], "l": l + 1, "rt": rt + 1});
        }
        Some(me)
    }
}

fn tree_nodes(dbg: &str, sc: f64) -> Option<Vec<Value>> {
    let mut c = Cur { s: dbg, i: 0, sc };
    c.eat("BallTreeIndex { tree: ")?;
    let mut out = Vec::new();
    c.node(&mut out)?;
    c.eat(", dist_fn: ")?;
    Some(out)
}

/// session kind "tree": build with `BallTreeIndex::new` and log the structure
fn tree_session<F: Float, D: 'static + Distance<F> + std::fmt::Debug>(inp: &Value, se: &Value, dist: D) -> Value {
    let n = geti(inp, "n") as usize;
    let dim = geti(inp, "dim") as usize;
    let pts = imat(&inp["pts"]);
    let leaf = geti(se, "leaf");
    let sc = scale_of(inp);
    let batch: Array2<F> = Array2::from_shape_fn((n, dim), |(r, c)| to_fs::<F>(pts[r][c], sc));
    let built = guarded(|| BallTreeIndex::new(&batch, leaf as usize, dist.clone()).map(|t| format!("{:?}", t)).map_err(|e| e.to_string()));
    let (build, parsed, nodes) = match built {
        Err(_) => ("panic", false, vec![]),
        Ok(Err(_)) => ("err", false, vec![]),
        Ok(Ok(d)) => match tree_nodes(&d, sc) {
            Some(v) => ("ok", true, v),
            None => ("ok", false, vec![]),
        },
    };
    json!({"ev": "tree", "ix": "tree", "ft": se["ft"], "leaf": leaf, "lay": se["lay"], "build": build, "parsed": parsed, "nodes": nodes})
}

fn session<F: Float, D: 'static + Distance<F> + std::fmt::Debug>(inp: &Value, se: &Value, dist: D) -> Value {
    if gets(se, "ix") == "tree" {
        return tree_session::<F, D>(inp, se, dist);
    }
    let n = geti(inp, "n") as usize;
    let dim = geti(inp, "dim") as usize;
    let pts = imat(&inp["pts"]);
    let ixk = gets(se, "ix");
    let leaf = geti(se, "leaf");
    let lay = gets(se, "lay");
    let mut ev = serde_json::Map::new();
    ev.insert("ev".into(), json!("sess"));
    for f in ["ix", "ft", "leaf", "lay"] {
        ev.insert(f.into(), se[f].clone());
    }
    // the batch in the requested memory layout; `view` always shows rows 0..n-1 = the case's points
    let sc = scale_of(inp);
    let val = |r: usize, c: usize| to_fs::<F>(pts[r][c], sc);
    let junk = to_f::<F>(-77);
    let owned: Array2<F> = match lay {
        "std" => Array2::from_shape_fn((n, dim), |(r, c)| val(r, c)),
        // every second row of a taller array (rows stay contiguous; junk rows in between)
        "rows2" => Array2::from_shape_fn((2 * n, dim), |(r, c)| if r % 2 == 0 { val(r / 2, c) } else { junk }),
        // every second column of a wider array (rows are strided, not contiguous)
        "cols2" => Array2::from_shape_fn((n, 2 * dim), |(r, c)| if c % 2 == 0 { val(r, c / 2) } else { junk }),
        // column-major storage (rows are strided)
        "fort" => {
            let mut a = Array2::<F>::zeros((n, dim).f());
            for r in 0..n {
                for c in 0..dim {
                    a[[r, c]] = val(r, c);
                }
            }
            a
        }
        _ => panic!("unknown layout {}", lay),
    };
    let view: ArrayView2<F> = match lay {
        "rows2" => owned.slice(s![..;2, ..]),
        "cols2" => owned.slice(s![.., ..;2]),
        _ => owned.view(),
    };
    let built = guarded(|| -> Result<Box<dyn NearestNeighbourIndex<F> + '_>, String> {
        let r = match (ixk, leaf) {
            // leaf = -1: `from_batch` (default leaf size) ; "*_d": the algorithm structs themselves
            ("lin", -1) => CommonNearestNeighbour::LinearSearch.from_batch(&view, dist.clone()),
            ("kd", -1) => CommonNearestNeighbour::KdTree.from_batch(&view, dist.clone()),
            ("ball", -1) => CommonNearestNeighbour::BallTree.from_batch(&view, dist.clone()),
            ("lin", l) => CommonNearestNeighbour::LinearSearch.from_batch_with_leaf_size(&view, l as usize, dist.clone()),
            ("kd", l) => CommonNearestNeighbour::KdTree.from_batch_with_leaf_size(&view, l as usize, dist.clone()),
            ("ball", l) => CommonNearestNeighbour::BallTree.from_batch_with_leaf_size(&view, l as usize, dist.clone()),
            ("lin_d", l) => LinearSearch::new().from_batch_with_leaf_size(&view, l as usize, dist.clone()),
            ("kd_d", l) => KdTree::new().from_batch_with_leaf_size(&view, l as usize, dist.clone()),
            ("ball_d", l) => BallTree::new().from_batch_with_leaf_size(&view, l as usize, dist.clone()),
            // "*_n": the index types' own constructors
            ("lin_n", _) => LinearSearchIndex::new(&view, dist.clone()).map(|v| Box::new(v) as Box<dyn NearestNeighbourIndex<F> + Send + Sync>),
            ("kd_n", l) => KdTreeIndex::new(&view, l as usize, dist.clone()).map(|v| Box::new(v) as Box<dyn NearestNeighbourIndex<F> + Send + Sync>),
            ("ball_n", l) => BallTreeIndex::new(&view, l as usize, dist.clone()).map(|v| Box::new(v) as Box<dyn NearestNeighbourIndex<F> + Send + Sync>),
            _ => panic!("unknown index kind {}", ixk),
        };
        r.map(|b| b as Box<dyn NearestNeighbourIndex<F>>).map_err(|e| e.to_string())
    });
    match built {
        Err(m) => {
            ev.insert("build".into(), json!("panic"));
            ev.insert("msg".into(), json!(m));
        }
        Ok(Err(m)) => {
            ev.insert("build".into(), json!("err"));
            ev.insert("msg".into(), json!(m));
        }
        Ok(Ok(ix)) => {
            ev.insert("build".into(), json!("ok"));
            queries::<F>(ix.as_ref(), inp, &mut ev);
        }
    }
    if !ev.contains_key("knn") {
        ev.insert("knn".into(), json!([]));
        ev.insert("rng".into(), json!([]));
        ev.insert("bad".into(), json!([]));
    }
    Value::Object(ev)
}

fn with_metric<F: Float>(inp: &Value, se: &Value) -> Value {
    match gets(inp, "metric") {
        "l1" => session::<F, _>(inp, se, L1Dist),
        "l2" => session::<F, _>(inp, se, L2Dist),
        "linf" => session::<F, _>(inp, se, LInfDist),
        "lp1" => session::<F, _>(inp, se, LpDist(F::from(1.0).unwrap())),
        "lp2" => session::<F, _>(inp, se, LpDist(F::from(2.0).unwrap())),
        "lp3" => session::<F, _>(inp, se, LpDist(F::from(3.0).unwrap())),
        m => panic!("unknown metric {}", m),
    }
}

/// run the isolated queries of a case in a child process; returns "<session>:<code>" -> outcome
fn probe_child(case: &Value) -> serde_json::Map<String, Value> {
    use std::io::Write;
    use std::process::{Command, Stdio};
    let mut m = serde_json::Map::new();
    let exe = std::env::current_exe().expect("current_exe");
    let child = Command::new(exe).arg("--probe").stdin(Stdio::piped()).stdout(Stdio::piped()).stderr(Stdio::null()).spawn();
    if let Ok(mut ch) = child {
        if let Some(mut si) = ch.stdin.take() {
            let _ = si.write_all(serde_json::to_string(case).unwrap().as_bytes());
        }
        if let Ok(o) = ch.wait_with_output() {
            for l in String::from_utf8_lossy(&o.stdout).lines() {
                if let Ok(v) = serde_json::from_str::<Value>(l) {
                    if let (Some(k), Some(val)) = (v.get("key").and_then(|k| k.as_str()), v.get("val")) {
                        m.insert(k.to_string(), val.clone());
                    }
                }
            }
        }
    }
    m
}

fn run(case: &Value) -> Vec<Value> {
    let inp = &case["inp"];
    let child = PROBE.with(|p| p.borrow().child);
    if !child {
        let need = ivec(&inp["ks"]).iter().any(|k| isolated(*k));
        let answers = if need { probe_child(case) } else { serde_json::Map::new() };
        PROBE.with(|p| {
            p.borrow_mut().answers = answers;
            p.borrow_mut().dead = false;
        });
    }
    let mut out = Vec::new();
    for (si, se) in geta(inp, "sess").iter().enumerate() {
        PROBE.with(|p| p.borrow_mut().sess = si);
        if child && gets(se, "ix") == "tree" {
            continue;
        }
        out.push(match gets(se, "ft") {
            "f32" => with_metric::<f32>(inp, se),
            "f64" => with_metric::<f64>(inp, se),
            t => panic!("unknown float type {}", t),
        });
    }
    out
}

fn main() {
    if std::env::args().nth(1).as_deref() == Some("--probe") {
        // probe child: one case on stdin, answers on stdout (see `queries`)
        silence_panics();
        let mut txt = String::new();
        std::io::Read::read_to_string(&mut std::io::stdin(), &mut txt).expect("stdin");
        let case: Value = serde_json::from_str(&txt).expect("case json");
        PROBE.with(|p| p.borrow_mut().child = true);
        let _ = guarded(|| run(&case));
        return;
    }
    run_cases(run);
}
