//! C17 harness: count / tf-idf vectorisers of linfa-preprocessing on corpora given as sequences of
//! Unicode code points. The case carries documents, stop words and fixed vocabularies as arrays of
//! code points (built by the TLA+ generator); the harness turns them into `String`s, calls the real
//! API and logs every observed string again as an array of code points (an injective encoding, no
//! interpretation), every count as an integer and every tf-idf entry as round(v * 10^4).
//! No oracle logic lives here: tokenisation, n-grams, filtering and idf are recomputed by TLC.
//! kind "hist" replays a builder *history*: use with settings s1 (check_ref / fit), re-configuration through
//! exactly the setters whose setting differs (on the same value or on a clone), fit with s2, and (clone) a
//! second fit of the untouched original; every fit event names the settings and corpus it was made with.
use linfa_preprocessing::tf_idf_vectorization::{FittedTfIdfVectorizer, TfIdfMethod, TfIdfVectorizer};
use linfa::ParamGuard;
use linfa_preprocessing::{CountVectorizer, CountVectorizerParams, Tokenizer};
use ndarray::Array1;
use vh::serde_json::{json, Value};
use vh::*;

const S: f64 = 10000.0;

fn cps_to_string(v: &Value) -> String {
    v.as_array()
        .expect("code point array")
        .iter()
        .map(|x| char::from_u32(x.as_i64().expect("code point") as u32).expect("valid scalar value"))
        .collect()
}
fn strings(v: &Value) -> Vec<String> {
    v.as_array().expect("array of strings").iter().map(cps_to_string).collect()
}
fn string_to_cps(s: &str) -> Value {
    Value::Array(s.chars().map(|c| json!(c as u32 as i64)).collect())
}
fn vocab_json(v: &[String]) -> Value {
    Value::Array(v.iter().map(|s| string_to_cps(s)).collect())
}

/// the function tokenizer of the model: maximal runs of non-whitespace characters
fn ws_tokenizer(s: &str) -> Vec<&str> {
    s.split_whitespace().collect()
}

/// tokenizer kinds of the model -> the API value they stand for (the mapping is stated in Vectorizer.tla)
fn tokenizer_of(kind: &str) -> Option<Tokenizer> {
    match kind {
        "default" => None, // r"\b\w\w+\b"
        "re_w1" => Some(Tokenizer::Regex(r"\w+".to_string())),
        "re_s2" => Some(Tokenizer::Regex(r"\S\S+".to_string())),
        "re_b2" => Some(Tokenizer::Regex(r"\b[^ ][^ ]+\b".to_string())), // the custom regex of linfa's own tests
        "fn_ws" => Some(Tokenizer::Function(ws_tokenizer)),
        other => panic!("unknown tokenizer kind {}", other),
    }
}

struct Settings {
    lower: bool,
    norm: bool,
    tok: String,
    nmin: usize,
    nmax: usize,
    dfmin: f32,
    dfmax: f32,
    stop: Option<Vec<String>>,
    cap: Option<usize>,
    fixed: bool,
    vocab: Vec<String>,
}

fn ratio(v: &Value) -> f32 {
    let a = ivec(v);
    (a[0] as f32) / (a[1] as f32)
}

fn settings(st: &Value) -> Settings {
    Settings {
        lower: getb(st, "lower"),
        norm: getb(st, "norm"),
        tok: gets(st, "tok").to_string(),
        nmin: geti(st, "nmin") as usize,
        nmax: geti(st, "nmax") as usize,
        dfmin: ratio(&st["dfmin"]),
        dfmax: ratio(&st["dfmax"]),
        stop: if getb(st, "hasstop") { Some(strings(&st["stop"])) } else { None },
        cap: {
            let c = geti(st, "cap");
            if c < 0 {
                None
            } else {
                Some(c as usize)
            }
        },
        fixed: getb(st, "fixed"),
        vocab: strings(&st["vocab"]),
    }
}

fn count_params(s: &Settings) -> CountVectorizerParams {
    let mut p = CountVectorizer::params()
        .convert_to_lowercase(s.lower)
        .normalize(s.norm)
        .n_gram_range(s.nmin, s.nmax)
        .document_frequency(s.dfmin, s.dfmax);
    if let Some(t) = tokenizer_of(&s.tok) {
        p = p.tokenizer(t);
    }
    if let Some(sw) = &s.stop {
        p = p.stopwords(&sw[..]);
    }
    if s.cap.is_some() {
        p = p.max_features(s.cap);
    }
    p
}

fn tfidf_params(s: &Settings) -> TfIdfVectorizer {
    let mut p = TfIdfVectorizer::default()
        .convert_to_lowercase(s.lower)
        .normalize(s.norm)
        .n_gram_range(s.nmin, s.nmax)
        .document_frequency(s.dfmin, s.dfmax);
    if let Some(t) = tokenizer_of(&s.tok) {
        p = p.tokenizer(t);
    }
    if let Some(sw) = &s.stop {
        p = p.stopwords(&sw[..]);
    }
    if s.cap.is_some() {
        p = p.max_features(s.cap);
    }
    p
}

/// TfIdfVectorizer has no public setter for the method: the (public, serde-enabled) struct is
/// rebuilt through its own serialisation with the method field replaced.
fn with_method(p: TfIdfVectorizer, method: &str, tok: &str) -> TfIdfVectorizer {
    let m = match method {
        "smooth" => TfIdfMethod::Smooth,
        "nonsmooth" => TfIdfMethod::NonSmooth,
        "textbook" => TfIdfMethod::Textbook,
        other => panic!("unknown idf method {}", other),
    };
    if m == TfIdfMethod::Smooth {
        return p; // the default
    }
    let mut v = serde_json::to_value(&p).expect("serialise TfIdfVectorizer");
    v["method"] = serde_json::to_value(&m).unwrap();
    let q: TfIdfVectorizer = serde_json::from_value(v).expect("deserialise TfIdfVectorizer");
    // a function tokenizer is skipped by serde: set it again through the builder
    if tok == "fn_ws" {
        q.tokenizer(Tokenizer::Function(ws_tokenizer))
    } else {
        q
    }
}

fn ascii(s: &str) -> String {
    s.chars().filter(|c| c.is_ascii_alphanumeric() || *c == ' ').take(120).collect()
}

fn dense_counts(m: &sprs::CsMat<usize>) -> (Value, usize, usize) {
    let d = m.to_dense();
    let rows = Value::Array(d.outer_iter().map(|r| Value::Array(r.iter().map(|x| json!(*x as i64)).collect())).collect());
    (rows, m.rows(), m.cols())
}
fn dense_tfidf(m: &sprs::CsMat<f64>) -> (Value, usize, usize, bool) {
    let d = m.to_dense();
    let rows = Value::Array(d.outer_iter().map(|r| fxv(r.iter(), S)).collect());
    (rows, m.rows(), m.cols(), all_finite(d.iter()))
}

/// kind "idf": the public `TfIdfMethod::compute_idf(n, df)` alone, for the three methods
fn run_idf(inp: &Value) -> Vec<Value> {
    let n = geti(inp, "n") as usize;
    let df = geti(inp, "df") as usize;
    let mut ev = vec![];
    for (name, m) in [("smooth", TfIdfMethod::Smooth), ("nonsmooth", TfIdfMethod::NonSmooth), ("textbook", TfIdfMethod::Textbook)] {
        let v = m.compute_idf(n, df);
        ev.push(json!({"ev": "idf", "method": name, "finite": v.is_finite(), "v": if v.is_finite() { fx(v, S) } else { json!(0) }}));
    }
    ev.push(json!({"ev": "end"}));
    ev
}

/// tokenizer value for a *re*-configuration: "default" has to be spelled out as its regex
fn tokenizer_value(kind: &str) -> Tokenizer {
    match tokenizer_of(kind) {
        Some(t) => t,
        None => Tokenizer::Regex(r"\b\w\w+\b".to_string()),
    }
}

/// Re-configure a builder that was built (and used) with settings `a` to settings `b`, calling exactly the
/// setters whose setting differs. Both builders have the same setter names.
macro_rules! reconfigure {
    ($p:expr, $a:expr, $b:expr) => {{
        let (a, b): (&Settings, &Settings) = ($a, $b);
        let mut p = $p;
        if a.tok != b.tok {
            p = p.tokenizer(tokenizer_value(&b.tok));
        }
        if a.lower != b.lower {
            p = p.convert_to_lowercase(b.lower);
        }
        if a.norm != b.norm {
            p = p.normalize(b.norm);
        }
        if (a.nmin, a.nmax) != (b.nmin, b.nmax) {
            p = p.n_gram_range(b.nmin, b.nmax);
        }
        if (a.dfmin, a.dfmax) != (b.dfmin, b.dfmax) {
            p = p.document_frequency(b.dfmin, b.dfmax);
        }
        if a.stop != b.stop {
            let sw: Vec<String> = b.stop.clone().expect("history cases only set (never unset) a stop list");
            p = p.stopwords(&sw[..]);
        }
        if a.cap != b.cap {
            p = p.max_features(b.cap);
        }
        p
    }};
}

/// kind "hist": a builder is used once with settings s1 (check_ref or a fit on train1), then re-configured
/// through its setters (on the same value or on a clone) to settings s2 and fitted on `train`; with a clone,
/// the original is afterwards fitted on `train` again (it must still behave as s1).
fn run_hist(inp: &Value) -> Vec<Value> {
    let s1 = settings(&inp["st1"]);
    let s2 = settings(&inp["st"]);
    let api = gets(inp, "api").to_string();
    let first = gets(inp, "first").to_string();
    let via = gets(inp, "via").to_string();
    let train1 = Array1::from(strings(&inp["train1"]));
    let train = Array1::from(strings(&inp["train"]));
    let test = Array1::from(strings(&inp["test"]));
    let mut ev: Vec<Value> = vec![];

    macro_rules! observe_count {
        ($fitres:expr, $cfg:expr, $corpus:expr, $ons:expr) => {{
            match $fitres {
                Err(e) => ev.push(json!({"ev": "fit", "api": "count", "cfg": $cfg, "corpus": $corpus, "ok": false, "err": ascii(&e.to_string())})),
                Ok(cv) => {
                    ev.push(json!({"ev": "fit", "api": "count", "cfg": $cfg, "corpus": $corpus, "ok": true, "vocab": vocab_json(cv.vocabulary()), "nentries": cv.nentries() as i64}));
                    for (on, a) in $ons {
                        match cv.transform(a) {
                            Err(e) => ev.push(json!({"ev": "count", "on": on, "ok": false, "err": ascii(&e.to_string())})),
                            Ok(m) => {
                                let (rows, nr, nc) = dense_counts(&m);
                                ev.push(json!({"ev": "count", "on": on, "ok": true, "rows": nr as i64, "cols": nc as i64, "m": rows}));
                            }
                        }
                    }
                }
            }
        }};
    }
    macro_rules! observe_tfidf {
        ($fitres:expr, $cfg:expr, $corpus:expr, $ons:expr) => {{
            match $fitres {
                Err(e) => ev.push(json!({"ev": "fit", "api": "tfidf", "cfg": $cfg, "corpus": $corpus, "ok": false, "err": ascii(&e.to_string())})),
                Ok(tv) => {
                    ev.push(json!({"ev": "fit", "api": "tfidf", "cfg": $cfg, "corpus": $corpus, "ok": true, "method": "smooth", "vocab": vocab_json(tv.vocabulary()), "nentries": tv.nentries() as i64}));
                    for (on, a) in $ons {
                        match tv.transform(a) {
                            Err(e) => ev.push(json!({"ev": "tfidf", "on": on, "ok": false, "err": ascii(&e.to_string())})),
                            Ok(m) => {
                                let (rows, nr, nc, finite) = dense_tfidf(&m);
                                ev.push(json!({"ev": "tfidf", "on": on, "ok": true, "method": "smooth", "rows": nr as i64, "cols": nc as i64, "finite": finite, "m": rows}));
                            }
                        }
                    }
                }
            }
        }};
    }

    if api == "count" {
        let base = count_params(&s1);
        if first == "check_ref" {
            let ok = base.check_ref().is_ok();
            ev.push(json!({"ev": "check", "ok": ok}));
        } else {
            observe_count!(base.fit(&train1), "s1", "train1", [("train1", &train1)]);
        }
        if via == "clone" {
            let p2 = reconfigure!(base.clone(), &s1, &s2);
            observe_count!(p2.fit(&train), "s2", "train", [("train", &train), ("test", &test)]);
            observe_count!(base.fit(&train), "s1", "train", [("test", &test)]);
        } else {
            let p2 = reconfigure!(base, &s1, &s2);
            observe_count!(p2.fit(&train), "s2", "train", [("train", &train), ("test", &test)]);
        }
    } else {
        let base = tfidf_params(&s1);
        observe_tfidf!(base.fit(&train1), "s1", "train1", [("train1", &train1)]);
        if via == "clone" {
            let p2 = reconfigure!(base.clone(), &s1, &s2);
            observe_tfidf!(p2.fit(&train), "s2", "train", [("train", &train), ("test", &test)]);
            observe_tfidf!(base.fit(&train), "s1", "train", [("test", &test)]);
        } else {
            let p2 = reconfigure!(base, &s1, &s2);
            observe_tfidf!(p2.fit(&train), "s2", "train", [("train", &train), ("test", &test)]);
        }
    }
    ev.push(json!({"ev": "end"}));
    ev
}

fn run(case: &Value) -> Vec<Value> {
    let inp = &case["inp"];
    if gets(case, "kind") == "idf" {
        return run_idf(inp);
    }
    if gets(case, "kind") == "hist" {
        return run_hist(inp);
    }
    let st = settings(&inp["st"]);
    let train = strings(&inp["train"]);
    let test = strings(&inp["test"]);
    let form = inp.get("form").and_then(|f| f.as_str()).unwrap_or("string").to_string();
    let methods: Vec<String> = geta(inp, "methods").iter().map(|m| m.as_str().unwrap().to_string()).collect();
    let train_a = Array1::from(train.clone());
    let test_a = Array1::from(test.clone());
    // second calling form: a view over &str elements
    let train_s: Vec<&str> = train.iter().map(|s| s.as_str()).collect();
    let test_s: Vec<&str> = test.iter().map(|s| s.as_str()).collect();
    let train_sa = Array1::from(train_s);
    let test_sa = Array1::from(test_s);
    let mut ev: Vec<Value> = vec![];

    // ---- count vectoriser
    let fitted = guarded(|| {
        let p = count_params(&st);
        if form == "checked" {
            // third calling form: ParamGuard::check() first, then the methods of the checked parameter set
            match p.check() {
                Err(e) => Err(e),
                Ok(valid) => {
                    if st.fixed {
                        valid.fit_vocabulary(&st.vocab[..])
                    } else {
                        valid.fit(&train_a)
                    }
                }
            }
        } else if st.fixed {
            p.fit_vocabulary(&st.vocab[..])
        } else if form == "str" {
            p.fit(&train_sa.view())
        } else {
            p.fit(&train_a)
        }
    });
    let cv: Option<CountVectorizer> = match fitted {
        Err(msg) => {
            ev.push(panic_event("count.fit", &msg));
            None
        }
        Ok(Err(e)) => {
            ev.push(json!({"ev": "fit", "api": "count", "ok": false, "err": ascii(&e.to_string())}));
            None
        }
        Ok(Ok(cv)) => {
            ev.push(json!({"ev": "fit", "api": "count", "ok": true, "vocab": vocab_json(cv.vocabulary()), "nentries": cv.nentries() as i64}));
            Some(cv)
        }
    };
    if let Some(cv) = &cv {
        for (on, a, sa) in [("train", &train_a, &train_sa), ("test", &test_a, &test_sa)] {
            let r = guarded(|| if form == "str" { cv.transform(&sa.view()) } else { cv.transform(a) });
            match r {
                Err(msg) => ev.push(panic_event("count.transform", &msg)),
                Ok(Err(e)) => ev.push(json!({"ev": "count", "on": on, "ok": false, "err": ascii(&e.to_string())})),
                Ok(Ok(m)) => {
                    let (rows, nr, nc) = dense_counts(&m);
                    ev.push(json!({"ev": "count", "on": on, "ok": true, "rows": nr as i64, "cols": nc as i64, "m": rows}));
                }
            }
        }
    }

    // ---- tf-idf vectoriser, one fit per method (every fit has its own column order)
    for method in &methods {
        let fitted = guarded(|| {
            let p = with_method(tfidf_params(&st), method, &st.tok);
            if st.fixed {
                p.fit_vocabulary(&st.vocab[..])
            } else if form == "str" {
                p.fit(&train_sa.view())
            } else {
                p.fit(&train_a)
            }
        });
        let tv: FittedTfIdfVectorizer = match fitted {
            Err(msg) => {
                ev.push(panic_event("tfidf.fit", &msg));
                continue;
            }
            Ok(Err(e)) => {
                ev.push(json!({"ev": "fit", "api": "tfidf", "ok": false, "err": ascii(&e.to_string())}));
                continue;
            }
            Ok(Ok(tv)) => tv,
        };
        let seen = match tv.method() {
            TfIdfMethod::Smooth => "smooth",
            TfIdfMethod::NonSmooth => "nonsmooth",
            TfIdfMethod::Textbook => "textbook",
        };
        ev.push(json!({"ev": "fit", "api": "tfidf", "ok": true, "method": seen, "vocab": vocab_json(tv.vocabulary()), "nentries": tv.nentries() as i64}));
        for (on, a, sa) in [("train", &train_a, &train_sa), ("test", &test_a, &test_sa)] {
            let r = guarded(|| if form == "str" { tv.transform(&sa.view()) } else { tv.transform(a) });
            match r {
                Err(msg) => ev.push(panic_event("tfidf.transform", &msg)),
                Ok(Err(e)) => ev.push(json!({"ev": "tfidf", "on": on, "ok": false, "err": ascii(&e.to_string())})),
                Ok(Ok(m)) => {
                    let (rows, nr, nc, finite) = dense_tfidf(&m);
                    ev.push(json!({"ev": "tfidf", "on": on, "ok": true, "method": seen, "rows": nr as i64, "cols": nc as i64, "finite": finite, "m": rows}));
                }
            }
        }
    }
    ev.push(json!({"ev": "end"}));
    ev
}

fn main() {
    run_cases(run);
}
