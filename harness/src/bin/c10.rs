//! C10 harness: Gaussian mixture (`GaussianMixtureModel::params_with_rng(..).fit`, the accessors
//! `weights / means / covariances / precisions`, `predict_proba`, `predict`) on lattice data.
//! The harness only feeds the abstract case to the real API and logs what comes back as integers
//! (fixed point with a logged power-of-ten scale, order keys). No oracle logic here.
//!
//! case  inp = { ft: "f64"|"f32", p, ds, data: [[int]] (value = int/ds), k, init: "kmeans"|"random",
//!               seed, regn/regd, toln/told, runs, maxit, queries: [[int]] (value = int/ds) }
//! events
//!   fit     : { ok, err (variant name of GmmError), msg, hooked, runs: [ {n, lbk, d} ] }
//!             runs: from the `gmm.iter` hook events of this fit (linfa commit 96442e7; they need the
//!             environment variable LINFA_VERIF_STEPS; empty when the tree has no such hook):
//!             per run the number of EM iterations, the order key of its last lower bound and the last
//!             change of the lower bound d = fx(lb - prev, 1e9), dnum = false when that is not a number below 2^30
//!             (one-iteration run: +inf)
//!   model   : { k, p, num (every parameter is finite and encodable), ws, w, wkey, ms, means,
//!               cs[k], cov[k][p][p], ps[k], prec[k][p][p] }     (only after ok)
//!   predict : { rows: [ { num, proba, pkey, label, label_ds, num1, proba1, pkey1, label1 } ] }
//!             proba/label: one batch call on all queries; label_ds: `predict(DatasetBase)`;
//!             proba1/label1: the same observation passed alone (1-row array)
//!   refit   : { ok, err, budget, w, means, dg, prefix: [ {ok, err, dg} for n_runs = 1 .. runs-1 ] }
//!             after a successful fit: the same parameters, data and seed (a) with fewer runs
//!             (n_runs = 1 .. runs-1, same budget) and (b) with a larger iteration budget
//!             (4 * maxit + 10, same n_runs); dg = digest of the bit patterns of weights, means,
//!             covariances (the model event carries the digest of the fitted model)
//!   panic   : { at, msg }   a panic inside one call; no specification action explains it
use linfa::traits::{Fit, Predict};
use linfa::{DatasetBase, Float};
use linfa_clustering::{GaussianMixtureModel, GmmError, GmmInitMethod};
use ndarray::{s, Array1, Array2, ArrayView2};
use rand::SeedableRng;
use rand_xoshiro::Xoshiro256Plus;
use vh::serde_json::{json, Map, Value};
use vh::*;

const WS: f64 = 1e8; // weights and probabilities
const MS: f64 = 1e6; // means
const LIM: f64 = 134217728.0; // 2^27: covariance / precision entries are logged below this bound

fn f64of<F: Float>(v: F) -> f64 {
    v.to_f64().unwrap_or(f64::NAN)
}
fn arr<F: Float>(rows: &[Vec<i64>], ncols: usize, ds: i64) -> Array2<F> {
    Array2::from_shape_fn((rows.len(), ncols), |(i, j)| F::cast(rows[i][j] as f64 / ds as f64))
}
fn is_int(v: &Value) -> bool {
    v.is_i64() || v.is_u64()
}
fn all_int(v: &Value) -> bool {
    match v {
        Value::Array(a) => a.iter().all(all_int),
        x => is_int(x),
    }
}
/// largest power of ten s <= 10^8 with maxabs * s < 2^27 (1 if there is none)
fn pick_scale(maxabs: f64) -> f64 {
    let mut sc = 1e8;
    if !maxabs.is_finite() {
        return 1.0;
    }
    while sc > 1.0 && maxabs * sc >= LIM {
        sc /= 10.0;
    }
    sc
}
fn mat_scaled<F: Float>(m: &ArrayView2<F>) -> (f64, Value) {
    let maxabs = m.iter().fold(0.0f64, |a, v| {
        let x = f64of(*v).abs();
        if x.is_nan() || x > a {
            x
        } else {
            a
        }
    });
    let sc = pick_scale(maxabs);
    let v = Value::Array(
        m.outer_iter()
            .map(|r| {
                Value::Array(
                    r.iter()
                        .map(|x| {
                            let e = fx(f64of(*x), sc);
                            // below 2^27 by construction unless the entry is not finite / too large for scale 1
                            if is_int(&e) && e.as_i64().unwrap().abs() as f64 >= LIM {
                                json!("big")
                            } else {
                                e
                            }
                        })
                        .collect(),
                )
            })
            .collect(),
    );
    (sc, v)
}

// hook events: the buffer of linfa::verif_hook is process-global and the cases run on several threads;
// events carry a per-thread `tid`, so every drain is sorted into a stash keyed by tid (as in c13.rs)
static STASH: std::sync::Mutex<Option<std::collections::HashMap<i64, Vec<Value>>>> = std::sync::Mutex::new(None);
static MARKS: std::sync::atomic::AtomicI64 = std::sync::atomic::AtomicI64::new(1);

fn hook_mark() -> i64 {
    let id = MARKS.fetch_add(1, std::sync::atomic::Ordering::SeqCst);
    linfa::verif_hook::emit(&format!("\"ev\":\"c10.mark\",\"mark\":{}", id));
    id
}
/// the hook events of the calling thread recorded after mark `id`
fn hook_collect(id: i64) -> Vec<Value> {
    let mut g = STASH.lock().unwrap();
    let stash = g.get_or_insert_with(std::collections::HashMap::new);
    for line in linfa::verif_hook::drain() {
        // other hooks fire as well (k-means initialisation: one event per row from pool threads)
        if !(line.contains("\"gmm.iter\"") || line.contains("\"c10.mark\"")) {
            continue;
        }
        if let Ok(v) = vh::serde_json::from_str::<Value>(&line) {
            let tid = v.get("tid").and_then(|x| x.as_i64()).unwrap_or(-1);
            stash.entry(tid).or_default().push(v);
        }
    }
    let mine = stash.iter().find(|(_, evs)| evs.iter().any(|e| e["ev"] == "c10.mark" && e["mark"] == json!(id))).map(|(t, _)| *t);
    match mine {
        None => vec![],
        Some(tid) => {
            let evs = stash.remove(&tid).unwrap_or_default();
            let pos = evs.iter().rposition(|e| e["ev"] == "c10.mark" && e["mark"] == json!(id)).unwrap_or(0);
            evs.into_iter().skip(pos + 1).filter(|e| e["ev"] == "gmm.iter").collect()
        }
    }
}
/// per run (events `gmm.iter` {run, it (1-based), prev, lb: bit patterns as hex strings}): iterations,
/// key of the last lower bound, last change
fn run_summaries(evs: &[Value]) -> Vec<Value> {
    let mut runs: Vec<(i64, f64, f64)> = vec![];
    let hexf = |v: &Value| -> f64 {
        v.as_str().and_then(|h| u64::from_str_radix(h, 16).ok()).map(f64::from_bits).unwrap_or(f64::NAN)
    };
    let mut cur_run = -1;
    for e in evs {
        let run = e["run"].as_i64().unwrap_or(-1);
        let it = e["it"].as_i64().unwrap_or(-1); // 1-based
        let lb = hexf(&e["lb"]);
        let prev = hexf(&e["prev"]);
        if run != cur_run || runs.is_empty() {
            cur_run = run;
            runs.push((0, lb, lb - prev));
        }
        let last = runs.last_mut().unwrap();
        *last = (it, lb, lb - prev);
    }
    runs.iter()
        .map(|(n, lb, d)| {
            let e = fx(*d, 1e9);
            let num = is_int(&e);
            json!({"n": n, "lbk": key64(*lb), "lbfin": lb.is_finite(), "dnum": num, "d": if num { e } else { json!(0) }})
        })
        .collect()
}

fn err_kind(e: &GmmError) -> &'static str {
    match e {
        GmmError::InvalidValue(_) => "InvalidValue",
        GmmError::LinalgError(_) => "LinalgError",
        GmmError::EmptyCluster(_) => "EmptyCluster",
        GmmError::LowerBoundError(_) => "LowerBoundError",
        GmmError::NotConverged(_) => "NotConverged",
        GmmError::KMeansError(_) => "KMeansError",
        GmmError::LinfaError(_) => "LinfaError",
        GmmError::MinMaxError(_) => "MinMaxError",
    }
}
fn clean(s: &str) -> String {
    s.chars().filter(|c| c.is_ascii() && *c != '"' && *c != '\\').take(100).collect()
}

/// digest of the bit patterns of weights, means and covariances (as f64; exact for f32 too)
fn model_digest<F: Float>(g: &GaussianMixtureModel<F>) -> Value {
    let v: Vec<f64> = g.weights().iter().chain(g.means().iter()).chain(g.covariances().iter()).map(|x| f64of(*x)).collect();
    digest_f64(v.iter())
}

fn proba_row<F: Float>(row: ndarray::ArrayView1<F>) -> (bool, Value, Value) {
    let vals: Vec<f64> = row.iter().map(|v| f64of(*v)).collect();
    let enc = fxv(vals.iter(), WS);
    let num = all_finite(vals.iter()) && all_int(&enc);
    let keys = Value::Array(vals.iter().map(|v| key64(*v)).collect());
    (num, enc, keys)
}

fn run_t<F: Float>(inp: &Value) -> Vec<Value> {
    let p = geti(inp, "p") as usize;
    let ds = geti(inp, "ds");
    let data = imat(&inp["data"]);
    let queries = imat(&inp["queries"]);
    let k = geti(inp, "k") as usize;
    let reg = geti(inp, "regn") as f64 / geti(inp, "regd") as f64;
    let tol = geti(inp, "toln") as f64 / geti(inp, "told") as f64;
    let init = match gets(inp, "init") {
        "kmeans" => GmmInitMethod::KMeans,
        "random" => GmmInitMethod::Random,
        x => panic!("unknown init {}", x),
    };
    let x: Array2<F> = arr(&data, p, ds);
    let q: Array2<F> = arr(&queries, p, ds);
    let mut ev = vec![];

    let dataset = DatasetBase::from(x.clone());
    let runs = geti(inp, "runs") as u64;
    let maxit = geti(inp, "maxit") as u64;
    let mk_params = |budget: u64, nruns: u64| {
        GaussianMixtureModel::<F>::params_with_rng(k, Xoshiro256Plus::seed_from_u64(geti(inp, "seed") as u64))
            .tolerance(F::cast(tol))
            .reg_covariance(F::cast(reg))
            .n_runs(nruns)
            .max_n_iterations(budget)
            .init_method(init)
    };
    let params = mk_params(maxit, runs);
    let mark = hook_mark();
    let fitted = guarded(|| params.fit(&dataset));
    let hook_evs = hook_collect(mark);
    let hooked = !hook_evs.is_empty();
    let run_sums = run_summaries(&hook_evs);
    let gmm = match fitted {
        Err(msg) => {
            ev.push(panic_event("fit", &msg));
            return ev;
        }
        Ok(Err(e)) => {
            ev.push(json!({"ev": "fit", "ok": false, "err": err_kind(&e), "msg": clean(&e.to_string()), "hooked": hooked, "runs": run_sums}));
            return ev;
        }
        Ok(Ok(g)) => {
            ev.push(json!({"ev": "fit", "ok": true, "err": "", "msg": "", "hooked": hooked, "runs": run_sums}));
            g
        }
    };

    // ---- the fitted parameters through the public accessors
    {
        let w: Vec<f64> = gmm.weights().iter().map(|v| f64of(*v)).collect();
        let means = gmm.means();
        let cov = gmm.covariances();
        let prec = gmm.precisions();
        let mut o = Map::new();
        o.insert("ev".into(), json!("model"));
        o.insert("dg".into(), model_digest(&gmm));
        o.insert("k".into(), json!(w.len()));
        o.insert("p".into(), json!(means.ncols()));
        o.insert("mrows".into(), json!(means.nrows()));
        o.insert("cshape".into(), json!(cov.shape()));
        o.insert("pshape".into(), json!(prec.shape()));
        let wv = fxv(w.iter(), WS);
        o.insert("ws".into(), json!(WS as i64));
        o.insert("wkey".into(), Value::Array(w.iter().map(|v| key64(*v)).collect()));
        let mv = Value::Array(means.outer_iter().map(|r| Value::Array(r.iter().map(|v| fx(f64of(*v), MS)).collect())).collect());
        o.insert("ms".into(), json!(MS as i64));
        let mut cs = vec![];
        let mut cm = vec![];
        for c in cov.outer_iter() {
            let (sc, v) = mat_scaled(&c);
            cs.push(json!(sc as i64));
            cm.push(v);
        }
        let mut ps = vec![];
        let mut pm = vec![];
        for c in prec.outer_iter() {
            let (sc, v) = mat_scaled(&c);
            ps.push(json!(sc as i64));
            pm.push(v);
        }
        let (cmv, pmv) = (Value::Array(cm), Value::Array(pm));
        let finite = all_finite(w.iter())
            && means.iter().all(|v| f64of(*v).is_finite())
            && cov.iter().all(|v| f64of(*v).is_finite())
            && prec.iter().all(|v| f64of(*v).is_finite());
        o.insert("finite".into(), json!(finite));
        o.insert("num".into(), json!(finite && all_int(&wv) && all_int(&mv) && all_int(&cmv) && all_int(&pmv)));
        o.insert("w".into(), wv);
        o.insert("means".into(), mv);
        o.insert("cs".into(), Value::Array(cs));
        o.insert("cov".into(), cmv);
        o.insert("ps".into(), Value::Array(ps));
        o.insert("prec".into(), pmv);
        ev.push(Value::Object(o));
    }

    // ---- membership probabilities and predicted components of the queries
    let proba = match guarded(|| gmm.predict_proba(&q)) {
        Ok(pr) => pr,
        Err(msg) => {
            ev.push(panic_event("predict_proba", &msg));
            return ev;
        }
    };
    let labels: Array1<usize> = match guarded(|| gmm.predict(&q)) {
        Ok(l) => l,
        Err(msg) => {
            ev.push(panic_event("predict", &msg));
            return ev;
        }
    };
    let labels_ds: Array1<usize> = match guarded(|| gmm.predict(DatasetBase::from(q.clone())).targets().clone()) {
        Ok(l) => l,
        Err(msg) => {
            ev.push(panic_event("predict_dataset", &msg));
            return ev;
        }
    };
    let mut rows = vec![];
    for i in 0..q.nrows() {
        let one = q.slice(s![i..i + 1, ..]);
        let p1 = match guarded(|| gmm.predict_proba(&one)) {
            Ok(pr) => pr,
            Err(msg) => {
                ev.push(panic_event("predict_proba_single", &msg));
                return ev;
            }
        };
        let l1: Array1<usize> = match guarded(|| gmm.predict(&one)) {
            Ok(l) => l,
            Err(msg) => {
                ev.push(panic_event("predict_single", &msg));
                return ev;
            }
        };
        let (num, enc, keys) = proba_row(proba.row(i));
        let (num1, enc1, keys1) = proba_row(p1.row(0));
        rows.push(json!({"num": num, "proba": enc, "pkey": keys, "label": labels[i] as i64, "label_ds": labels_ds[i] as i64,
                         "num1": num1, "proba1": enc1, "pkey1": keys1, "label1": l1[0] as i64, "n1": p1.nrows()}));
    }
    ev.push(json!({"ev": "predict", "nrows": proba.nrows(), "ncols": proba.ncols(), "nlab": labels.len(), "nlabds": labels_ds.len(), "rows": rows}));

    // ---- the same fit with fewer runs (same budget), and with a larger iteration budget (same runs)
    let mut prefix = vec![];
    for j in 1..runs {
        let pj = mk_params(maxit, j);
        match guarded(|| pj.fit(&dataset)) {
            Err(msg) => {
                ev.push(panic_event("prefix_fit", &msg));
                return ev;
            }
            Ok(Err(e)) => prefix.push(json!({"ok": false, "err": err_kind(&e), "dg": [0, 0]})),
            Ok(Ok(g)) => prefix.push(json!({"ok": true, "err": "", "dg": model_digest(&g)})),
        }
    }
    let budget = 4 * maxit + 10;
    let params2 = mk_params(budget, runs);
    match guarded(|| params2.fit(&dataset)) {
        Err(msg) => ev.push(panic_event("refit", &msg)),
        Ok(Err(e)) => ev.push(json!({"ev": "refit", "ok": false, "err": err_kind(&e), "budget": budget, "num": false, "w": [], "means": [], "dg": [0, 0], "prefix": prefix})),
        Ok(Ok(g2)) => {
            let w: Vec<f64> = g2.weights().iter().map(|v| f64of(*v)).collect();
            let wv = fxv(w.iter(), WS);
            let mv = Value::Array(g2.means().outer_iter().map(|r| Value::Array(r.iter().map(|v| fx(f64of(*v), MS)).collect())).collect());
            ev.push(json!({"ev": "refit", "ok": true, "err": "", "budget": budget, "num": all_int(&wv) && all_int(&mv), "w": wv, "means": mv,
                           "dg": model_digest(&g2), "prefix": prefix}));
        }
    }
    ev
}

fn run(case: &Value) -> Vec<Value> {
    let inp = &case["inp"];
    match gets(inp, "ft") {
        "f64" => run_t::<f64>(inp),
        "f32" => run_t::<f32>(inp),
        x => panic!("unknown float type {}", x),
    }
}

fn main() {
    linfa::verif_hook::enable(true);
    run_cases(run);
}
