//! X09 harness: step-level observation of DBSCAN, OPTICS and the ball-tree search.
//!
//! One case = one run of one algorithm with the verification hooks of linfa switched on
//! (`linfa::verif_hook`, events `dbscan.step`, `optics.step`, `balltree.search`; see docs/reports/X09-hook.diff).
//! The harness only re-encodes the hook events as integer-only JSON (floats -> exact-integer observations or
//! fixed point) and appends what the public API returned; specs/Trace_X09Density.tla and
//! specs/Trace_X09Ball.tla replay the events against the actions of the design models.
//! On a tree without the hooks the event list holds the result only (the case says `hook: 0` then).
//!
//! kind "dstep": inp = { alg: "dbscan"|"optics", index: "linear"|"kdtree"|"balltree", dim, pts, minpts,
//!                        eps: {n, d}, metric: "l1"|"l2"|"linf", ft, leaf, hook }
//!   dbscan events: {"ev":"skip","i","why":0 labelled|1 noncore,"cnt"} {"ev":"seed"|"pop","i","cid","cnt","push":[..]}
//!                  {"ev":"close","cid"} {"ev":"end","n"} and finally {"ev":"labels","labels":[-1|label ..]}
//!   optics events: {"ev":"skip","i"} {"ev":"start"|"pop","i","nn","nseeds","core":OBS,"reach":OBS,"upd":[{"j","r":OBS,"isnew","nseeds"}..]}
//!                  {"ev":"endwalk","n"} {"ev":"end","n"} and finally {"ev":"order","order":[{"idx","core":OBS,"reach":OBS}..]}
//!   OBS = {"def","i","exact"}: an Option<F> distance in reduced form (L2: squared), as in the C08 harness.
//! kind "ballq": inp = { n, dim, sc, pts, q, metric, ix: "ball"|"ball_d"|"ball_n", ft, leaf, lay, mode: "knn"|"range", k, r8, hook }
//!   events: {"ev":"start","k","maxr":BND,"lb":FXV,"tree":TREE}
//!           {"ev":"pop","node":[..],"lb":FXV,"outlen","worst":BND,"act":"break"|"leaf"|"kids","kids":[{"node","lb":FXV,"pushed"}x2]|[]}
//!           {"ev":"point","idx","d":BND,"kept","outlen","worst":BND} {"ev":"done","n"}
//!           and finally {"ev":"result","st":"ok"|"err"|"panic","pos":[..]}
//!   FXV = {"fin": bool, "fx": round(v * scale * 6400)} (a lower bound in reduced units, scale = sc resp. sc^2 for L2)
//!   BND = {"def": bool, "inf": bool, "i": int, "exact": bool}: a reduced distance that is an integer multiple of
//!         1/64 on lattice inputs (`i` = v * scale * 64), `inf` for the unbounded radius of k_nearest, `def` false when absent
//!   TREE = nested {"leaf":true,"c":[FXV..],"r":FXV,"pts":[..]} | {"leaf":false,"c":[..],"r":FXV,"l":TREE,"rt":TREE}
//!          (centre coordinates and radius in true-distance units times sc)
use linfa::traits::Transformer;
use linfa::Float;
use linfa_clustering::{Dbscan, Optics};
use linfa_nn::distance::{Distance, L1Dist, L2Dist, LInfDist};
use linfa_nn::{BallTree, BallTreeIndex, BuildError, CommonNearestNeighbour, NearestNeighbour, NearestNeighbourIndex};
use ndarray::{s, Array1, Array2, ArrayBase, ArrayView2, Data, Ix2, ShapeBuilder};
use std::sync::Mutex;
use vh::serde_json::{json, Value};
use vh::*;

type NearestNeighbourBox<'a, F> = Box<dyn 'a + Send + Sync + NearestNeighbourIndex<F>>;

/// fixed-point scale of logged lower bounds, centres and radii
const SB: f64 = 6400.0;

// the hook buffer is process global: a run and the draining of its events are serialised
static HOOK_LOCK: Mutex<()> = Mutex::new(());

fn hooked<T>(f: impl FnOnce() -> T) -> (Result<T, String>, Vec<Value>) {
    let _g = HOOK_LOCK.lock().unwrap_or_else(|e| e.into_inner());
    linfa::verif_hook::drain();
    linfa::verif_hook::enable(true);
    let res = guarded(f);
    linfa::verif_hook::enable(false);
    let evs = linfa::verif_hook::drain()
        .iter()
        .map(|l| serde_json::from_str::<Value>(l).unwrap_or_else(|_| json!({"ev": "unparsable"})))
        .collect();
    (res, evs)
}

fn evname(v: &Value) -> &str {
    v.get("ev").and_then(|x| x.as_str()).unwrap_or("")
}
fn opname(v: &Value) -> &str {
    v.get("op").and_then(|x| x.as_str()).unwrap_or("")
}
fn int(v: &Value, k: &str) -> Value {
    match v.get(k).and_then(|x| x.as_i64()) {
        Some(x) => json!(x),
        None => json!(-999),
    }
}
fn ints(v: &Value, k: &str) -> Value {
    match v.get(k).and_then(|x| x.as_array()) {
        Some(a) => Value::Array(a.iter().map(|x| json!(x.as_i64().unwrap_or(-999))).collect()),
        None => json!([-999]),
    }
}
fn boolean(v: &Value, k: &str) -> Value {
    json!(v.get(k).and_then(|x| x.as_bool()).unwrap_or(false))
}

// ---------------------------------------------------------------------------------------------
// DBSCAN / OPTICS

#[derive(Debug, Clone, PartialEq)]
struct Leafy(CommonNearestNeighbour, usize);

impl NearestNeighbour for Leafy {
    fn from_batch_with_leaf_size<'a, F: Float, DT: Data<Elem = F>, D: 'a + Distance<F>>(
        &self,
        batch: &'a ArrayBase<DT, Ix2>,
        leaf_size: usize,
        dist_fn: D,
    ) -> Result<NearestNeighbourBox<'a, F>, BuildError> {
        self.0.from_batch_with_leaf_size(batch, leaf_size, dist_fn)
    }
    fn from_batch<'a, F: Float, DT: Data<Elem = F>, D: 'a + Distance<F>>(
        &self,
        batch: &'a ArrayBase<DT, Ix2>,
        dist_fn: D,
    ) -> Result<NearestNeighbourBox<'a, F>, BuildError> {
        if self.1 == 0 {
            self.0.from_batch(batch, dist_fn)
        } else {
            self.0.from_batch_with_leaf_size(batch, self.1, dist_fn)
        }
    }
}

fn index_of(name: &str) -> CommonNearestNeighbour {
    match name {
        "linear" => CommonNearestNeighbour::LinearSearch,
        "kdtree" => CommonNearestNeighbour::KdTree,
        "balltree" => CommonNearestNeighbour::BallTree,
        _ => panic!("unknown index {}", name),
    }
}

/// a distance (f64) -> {"def","i","exact"} in reduced form (`square` for L2)
fn obs_f64(v: Option<f64>, square: bool, single: bool) -> Value {
    match v {
        None => json!({"def": false, "i": 0, "exact": true}),
        Some(x) => {
            let y = if square { x * x } else { x };
            if !y.is_finite() || y.abs() >= 1073741824.0 {
                return json!({"def": true, "i": 0, "exact": false});
            }
            let r = y.round();
            let tol = if single { 2e-6 } else { 1e-9 };
            json!({"def": true, "i": r as i64, "exact": (y - r).abs() <= tol * y.abs().max(1.0)})
        }
    }
}
/// a float field of a hook event (number | null | "nonfinite")
fn obs_field(v: &Value, k: &str, square: bool, single: bool) -> Value {
    match v.get(k) {
        Some(Value::Null) | None => obs_f64(None, square, single),
        Some(x) => match x.as_f64() {
            Some(f) => obs_f64(Some(f), square, single),
            None => json!({"def": true, "i": 0, "exact": false}),
        },
    }
}

fn dbscan_steps(hooks: &[Value]) -> Vec<Value> {
    let mut out = Vec::new();
    for h in hooks.iter().filter(|h| evname(h) == "dbscan.step") {
        out.push(match opname(h) {
            "skip" => json!({"ev": "skip", "i": int(h, "i"), "cnt": int(h, "cnt"),
                             "why": match h.get("why").and_then(|x| x.as_str()) { Some("labelled") => 0, Some("noncore") => 1, _ => -999 }}),
            op @ ("seed" | "pop") => json!({"ev": op, "i": int(h, "i"), "cid": int(h, "cid"), "cnt": int(h, "cnt"), "push": ints(h, "push")}),
            "close" => json!({"ev": "close", "cid": int(h, "cid")}),
            "end" => json!({"ev": "end", "n": int(h, "n")}),
            _ => json!({"ev": "unknown_step"}),
        });
    }
    out
}

fn optics_steps(hooks: &[Value], square: bool, single: bool) -> Vec<Value> {
    let mut out: Vec<Value> = Vec::new();
    for h in hooks.iter().filter(|h| evname(h) == "optics.step") {
        match opname(h) {
            "skip" => out.push(json!({"ev": "skip", "i": int(h, "i")})),
            op @ ("start" | "pop") => out.push(json!({"ev": op, "i": int(h, "i"), "nn": int(h, "nn"), "nseeds": int(h, "nseeds"),
                                                       "core": obs_field(h, "core", square, single),
                                                       "reach": obs_field(h, "reach", square, single), "upd": []})),
            "seed" => {
                // seed-list inserts / updates belong to the listing step that visited the neighbours of `o`
                let u = json!({"j": int(h, "j"), "r": obs_field(h, "r", square, single), "isnew": boolean(h, "new"), "nseeds": int(h, "nseeds")});
                let ok = match out.last_mut() {
                    Some(last) if (last["ev"] == "start" || last["ev"] == "pop") && last["i"] == h["o"] => {
                        last["upd"].as_array_mut().unwrap().push(u);
                        true
                    }
                    _ => false,
                };
                if !ok {
                    out.push(json!({"ev": "stray_seed"}));
                }
            }
            "endwalk" => out.push(json!({"ev": "endwalk", "n": int(h, "n")})),
            "end" => out.push(json!({"ev": "end", "n": int(h, "n")})),
            _ => out.push(json!({"ev": "unknown_step"})),
        }
    }
    out
}

fn run_density<F: Float, D: Distance<F>>(inp: &Value, dist: D) -> Vec<Value> {
    let dim = geti(inp, "dim") as usize;
    let pts = imat(&inp["pts"]);
    let n = pts.len();
    let mp = geti(inp, "minpts") as usize;
    let eps = if geti(&inp["eps"], "d") == 0 {
        F::infinity()
    } else {
        F::cast(geti(&inp["eps"], "n") as f64) / F::cast(geti(&inp["eps"], "d") as f64)
    };
    let single = gets(inp, "ft") == "f32";
    let square = gets(inp, "metric") == "l2";
    let nn = Leafy(index_of(gets(inp, "index")), geti(inp, "leaf") as usize);
    let data: Array2<F> = Array2::from_shape_fn((n, dim), |(r, c)| F::cast(pts[r][c] as f64));
    let mut ev;
    match gets(inp, "alg") {
        "dbscan" => {
            let (res, hooks) = hooked(|| Dbscan::params_with::<F, _, _>(mp, dist.clone(), nn.clone()).tolerance(eps).transform(&data));
            ev = dbscan_steps(&hooks);
            match res {
                Ok(Ok(lab)) => {
                    let l: Vec<Value> = lab.iter().map(|x| json!(x.map(|v| v as i64).unwrap_or(-1))).collect();
                    ev.push(json!({"ev": "labels", "labels": l}));
                }
                Ok(Err(e)) => ev.push(json!({"ev": "error", "msg": format!("{}", e)})),
                Err(msg) => ev.push(panic_event("dbscan", &msg)),
            }
        }
        "optics" => {
            let (res, hooks) = hooked(|| Optics::params_with::<F, _, _>(mp, dist.clone(), nn.clone()).tolerance(eps).transform(data.view()));
            ev = optics_steps(&hooks, square, single);
            match res {
                Ok(Ok(an)) => {
                    let o: Vec<Value> = an
                        .iter()
                        .map(|s| {
                            json!({"idx": s.index() as i64,
                                   "core": obs_f64(s.core_distance().and_then(|x| x.to_f64()), square, single),
                                   "reach": obs_f64(s.reachability_distance().and_then(|x| x.to_f64()), square, single)})
                        })
                        .collect();
                    ev.push(json!({"ev": "order", "order": o}));
                }
                Ok(Err(e)) => ev.push(json!({"ev": "error", "msg": format!("{}", e)})),
                Err(msg) => ev.push(panic_event("optics", &msg)),
            }
        }
        a => panic!("unknown algorithm {}", a),
    }
    ev
}

// ---------------------------------------------------------------------------------------------
// ball tree search

fn to_fs<F: Float>(x: i64, sc: f64) -> F {
    F::from(x as f64 / sc).unwrap()
}

/// lower bound / centre coordinate / radius -> {"fin","fx"}; `mul` undoes the case's scale
fn fxv(v: Option<&Value>, mul: f64) -> Value {
    match v.and_then(|x| x.as_f64()) {
        Some(f) if (f * mul * SB).abs() < 1.0e9 => json!({"fin": true, "fx": (f * mul * SB).round() as i64}),
        _ => json!({"fin": false, "fx": 0}),
    }
}
/// reduced distance that is a multiple of 1/64 on lattice inputs -> {"def","inf","i","exact"}
fn bnd(v: Option<&Value>, mul: f64, single: bool) -> Value {
    match v {
        None | Some(Value::Null) => json!({"def": false, "inf": false, "i": 0, "exact": true}),
        Some(x) => match x.as_f64() {
            Some(f) => {
                let y = f * mul * 64.0;
                if !y.is_finite() || y.abs() >= 1.0e9 {
                    return json!({"def": true, "inf": false, "i": 0, "exact": false});
                }
                let r = y.round();
                let tol = if single { 2e-6 } else { 1e-9 };
                json!({"def": true, "inf": false, "i": r as i64, "exact": (y - r).abs() <= tol * y.abs().max(1.0)})
            }
            None => json!({"def": true, "inf": x.as_str() == Some("inf"), "i": 0, "exact": x.as_str() == Some("inf")}),
        },
    }
}

fn tree_json(t: &Value, sc: f64) -> Value {
    if !t.is_object() {
        return json!({"leaf": true, "c": [], "r": {"fin": false, "fx": 0}, "pts": [-999]});
    }
    let c: Vec<Value> = t.get("c").and_then(|x| x.as_array()).map(|a| a.iter().map(|x| fxv(Some(x), sc)).collect()).unwrap_or_default();
    if t.get("leaf").and_then(|x| x.as_bool()).unwrap_or(false) {
        json!({"leaf": true, "c": c, "r": fxv(t.get("r"), sc), "pts": ints(t, "pts")})
    } else {
        json!({"leaf": false, "c": c, "r": fxv(t.get("r"), sc),
               "l": tree_json(t.get("l").unwrap_or(&Value::Null), sc), "rt": tree_json(t.get("rt").unwrap_or(&Value::Null), sc)})
    }
}

/// `rmul`: factor that turns a reduced distance of the scaled data into lattice units (sc, or sc^2 for L2)
fn ball_steps(hooks: &[Value], sc: f64, rmul: f64, single: bool) -> Vec<Value> {
    let mut out: Vec<Value> = Vec::new();
    for h in hooks.iter().filter(|h| evname(h) == "balltree.search") {
        match opname(h) {
            "start" => out.push(json!({"ev": "start", "k": int(h, "k"), "maxr": bnd(h.get("maxr"), rmul, single), "lb": fxv(h.get("lb"), rmul),
                                       "tree": tree_json(h.get("tree").unwrap_or(&Value::Null), sc)})),
            "pop" => out.push(json!({"ev": "pop", "node": ints(h, "node"), "lb": fxv(h.get("lb"), rmul), "outlen": int(h, "outlen"),
                                     "worst": bnd(h.get("worst"), rmul, single), "act": "none", "kids": []})),
            op @ ("break" | "leaf" | "kids") => {
                let ok = match out.last_mut() {
                    Some(last) if last["ev"] == "pop" && last["act"] == "none" => {
                        last["act"] = json!(op);
                        if op == "kids" {
                            let kid = |k: &Value| json!({"node": ints(k, "node"), "lb": fxv(k.get("lb"), rmul), "pushed": boolean(k, "pushed")});
                            last["kids"] = json!([kid(&h["l"]), kid(&h["rt"])]);
                        }
                        true
                    }
                    _ => false,
                };
                if !ok {
                    out.push(json!({"ev": "stray_".to_string() + op}));
                }
            }
            "point" => out.push(json!({"ev": "point", "idx": int(h, "idx"), "d": bnd(h.get("d"), rmul, single), "kept": boolean(h, "kept"),
                                       "outlen": int(h, "outlen"), "worst": bnd(h.get("worst"), rmul, single)})),
            "done" => out.push(json!({"ev": "done", "n": int(h, "n")})),
            _ => out.push(json!({"ev": "unknown_step"})),
        }
    }
    out
}

fn run_ball<F: Float, D: 'static + Distance<F>>(inp: &Value, dist: D) -> Vec<Value> {
    let n = geti(inp, "n") as usize;
    let dim = geti(inp, "dim") as usize;
    let pts = imat(&inp["pts"]);
    let sc = geti(inp, "sc") as f64;
    let leaf = geti(inp, "leaf");
    let lay = gets(inp, "lay");
    let single = gets(inp, "ft") == "f32";
    let rmul = if gets(inp, "metric") == "l2" { sc * sc } else { sc };
    let val = |r: usize, c: usize| to_fs::<F>(pts[r][c], sc);
    let junk = F::from(-77.0).unwrap();
    let owned: Array2<F> = match lay {
        "std" => Array2::from_shape_fn((n, dim), |(r, c)| val(r, c)),
        "rows2" => Array2::from_shape_fn((2 * n, dim), |(r, c)| if r % 2 == 0 { val(r / 2, c) } else { junk }),
        "cols2" => Array2::from_shape_fn((n, 2 * dim), |(r, c)| if c % 2 == 0 { val(r, c / 2) } else { junk }),
        "fort" => {
            let mut a = Array2::<F>::zeros((n, dim).f());
            for r in 0..n {
                for c in 0..dim {
                    a[[r, c]] = val(r, c);
                }
            }
            a
        }
        _ => panic!("unknown layout {}", lay),
    };
    let view: ArrayView2<F> = match lay {
        "rows2" => owned.slice(s![..;2, ..]),
        "cols2" => owned.slice(s![.., ..;2]),
        _ => owned.view(),
    };
    let built = guarded(|| -> Result<Box<dyn NearestNeighbourIndex<F> + '_>, String> {
        let r = match (gets(inp, "ix"), leaf) {
            ("ball", -1) => CommonNearestNeighbour::BallTree.from_batch(&view, dist.clone()),
            ("ball", l) => CommonNearestNeighbour::BallTree.from_batch_with_leaf_size(&view, l as usize, dist.clone()),
            ("ball_d", l) => BallTree::new().from_batch_with_leaf_size(&view, l as usize, dist.clone()),
            ("ball_n", l) => BallTreeIndex::new(&view, l as usize, dist.clone()).map(|v| Box::new(v) as Box<dyn NearestNeighbourIndex<F> + Send + Sync>),
            (k, _) => panic!("unknown index kind {}", k),
        };
        r.map(|b| b as Box<dyn NearestNeighbourIndex<F>>).map_err(|e| e.to_string())
    });
    let ix = match built {
        Ok(Ok(ix)) => ix,
        Ok(Err(m)) => return vec![json!({"ev": "build_error", "msg": m})],
        Err(m) => return vec![panic_event("build", &m)],
    };
    let q: Array1<F> = Array1::from(ivec(&inp["q"]).iter().map(|x| to_fs::<F>(*x, sc)).collect::<Vec<F>>());
    let (res, hooks) = hooked(|| {
        if gets(inp, "mode") == "knn" {
            ix.k_nearest(q.view(), geti(inp, "k") as usize).map(|v| v.iter().map(|(_, i)| *i as i64).collect::<Vec<i64>>())
        } else {
            let rad = F::from(geti(inp, "r8") as f64 / (8.0 * sc)).unwrap();
            ix.within_range(q.view(), rad).map(|v| v.iter().map(|(_, i)| *i as i64).collect::<Vec<i64>>())
        }
    });
    let mut ev = ball_steps(&hooks, sc, rmul, single);
    ev.push(match res {
        Ok(Ok(pos)) => json!({"ev": "result", "st": "ok", "pos": pos}),
        Ok(Err(_)) => json!({"ev": "result", "st": "err", "pos": []}),
        Err(m) => json!({"ev": "result", "st": "panic", "pos": [], "msg": m}),
    });
    ev
}

fn by_metric<F: Float>(case: &Value) -> Vec<Value> {
    let inp = &case["inp"];
    let ball = gets(case, "kind") == "ballq";
    match (gets(inp, "metric"), ball) {
        ("l1", false) => run_density::<F, _>(inp, L1Dist),
        ("l2", false) => run_density::<F, _>(inp, L2Dist),
        ("linf", false) => run_density::<F, _>(inp, LInfDist),
        ("l1", true) => run_ball::<F, _>(inp, L1Dist),
        ("l2", true) => run_ball::<F, _>(inp, L2Dist),
        ("linf", true) => run_ball::<F, _>(inp, LInfDist),
        (m, _) => panic!("unknown metric {}", m),
    }
}

fn main() {
    run_cases(|case| match gets(&case["inp"], "ft") {
        "f32" => by_metric::<f32>(case),
        _ => by_metric::<f64>(case),
    });
}
