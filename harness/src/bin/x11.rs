//! X11 harness: decision-tree INTROSPECTION and export (`linfa_trees::DecisionTree`).
//! The cases are the C14 lattice cases (dataset, quarter-unit weights, hyper-parameters, label / float type,
//! record layout) extended by: `names` (feature-name codes, [] = the dataset carries no feature names) and the
//! Tikz builder options `lg` (`with_legend`) / `cp` (`complete(cp)`).
//! The harness fits the real tree and records -- without judging anything --
//!   fit   : result of `fit`
//!   tree  : every node reached through `root_node()/children()` in pre-order (path, depth, is_leaf, children,
//!           split, prediction() is None?, feature_name()), the sequence yielded by `iter_nodes()` as PATHS (each
//!           yielded reference is identified by its address among the nodes reached from the root), `features()`
//!           in the order returned, `max_depth()`, `num_leaves()`, depth of `root_node()`
//!   imp   : `mean_impurity_decrease`, `relative_impurity_decrease`, `feature_importance` (1e-6 units, order keys,
//!           NaN flags, bit-identity of the last two)
//!   tikz  : the text of `export_to_tikz()` (no builder call = documented defaults) and of the case's builder
//!           variant, PARSED back into a tree: bracket structure -> paths, split labels -> feature index /
//!           threshold in hundredths / impurity decrease in hundredths, leaf labels -> class, legend entries,
//!           document frame.
//! C14 (harness c14.rs) owns predictions, fit-time masks and the record-layout binding; they are not repeated here.
use linfa::prelude::*;
use linfa::Float;
use linfa_trees::{DecisionTree, SplitQuality, TreeNode};
use ndarray::{s, Array1, Array2, ArrayBase, Data, Ix2, ShapeBuilder};
use std::collections::HashMap;
use vh::serde_json::{json, Value};
use vh::*;

fn f64of<F: Float>(v: F) -> f64 {
    v.to_f64().unwrap_or(f64::NAN)
}

/// (round(v*1e6), representable?) -- non-finite or too large values are logged as 0 with the flag false
fn fx6(v: f64) -> (i64, bool) {
    match fx(v, 1e6).as_i64() {
        Some(i) => (i, true),
        None => (0, false),
    }
}

fn name_of(code: i64) -> String {
    format!("nm{}", code)
}
fn code_of(name: &str) -> i64 {
    name.strip_prefix("nm").and_then(|s| s.parse().ok()).unwrap_or(-1)
}

#[allow(clippy::too_many_arguments)]
fn walk<F: Float, L: linfa::Label + std::fmt::Debug>(
    node: &TreeNode<F, L>,
    path: &mut Vec<i64>,
    from_l: &dyn Fn(&L) -> i64,
    out: &mut Vec<Value>,
    addr: &mut HashMap<usize, Vec<i64>>,
    budget: &mut usize,
) {
    if *budget == 0 {
        return;
    }
    *budget -= 1;
    addr.insert(node as *const TreeNode<F, L> as usize, path.clone());
    let ch = node.children();
    let (feat, thr, dec) = node.split();
    let pred = node.prediction();
    let (dec6, decok) = fx6(f64of(dec));
    let fname = node.feature_name();
    out.push(json!({
        "path": path.clone(),
        "depth": node.depth(),
        "leaf": node.is_leaf(),
        "nch": ch.len(),
        "hasl": ch.first().map(|c| c.is_some()).unwrap_or(false),
        "hasr": ch.get(1).map(|c| c.is_some()).unwrap_or(false),
        "feat": feat,
        "thr2": exact_int(2.0 * f64of(thr)),
        "dec6": dec6,
        "decok": decok,
        "deck": key64(f64of(dec)),
        "predn": pred.is_none(),
        "pred": pred.map(|l| from_l(&l)).unwrap_or(-1),
        "hasname": fname.is_some(),
        "namec": fname.map(|s| code_of(s)).unwrap_or(-1),
        "namedef": fname.map(|s| *s == format!("feature-{}", feat)).unwrap_or(false),
    }));
    for (side, c) in ch.iter().enumerate() {
        if let Some(c) = c.as_ref() {
            path.push(side as i64);
            walk(c, path, from_l, out, addr, budget);
            path.pop();
        }
    }
}

// ---------------------------------------------------------------------------------------------
// Tikz text -> tree

/// "12.50" -> (1250, true); exactly two decimals are required for the flag
fn hundredths(s: &str) -> (i64, bool) {
    let s = s.trim();
    let (neg, body) = match s.strip_prefix('-') {
        Some(r) => (true, r),
        None => (false, s),
    };
    let mut it = body.splitn(2, '.');
    let ip = it.next().unwrap_or("");
    let fp = it.next().unwrap_or("");
    if ip.is_empty() || ip.len() > 9 || fp.len() != 2 || !ip.chars().all(|c| c.is_ascii_digit()) || !fp.chars().all(|c| c.is_ascii_digit()) {
        return (0, false);
    }
    let v = ip.parse::<i64>().unwrap() * 100 + fp.parse::<i64>().unwrap();
    if v >= 2147483647 {
        return (0, false);
    }
    (if neg { -v } else { v }, true)
}

struct TkParser<'a> {
    b: &'a [u8],
    pos: usize,
    nodes: Vec<Value>,
    ok: bool,
}

impl<'a> TkParser<'a> {
    /// at `[`: parses one node and its bracketed children
    fn node(&mut self, path: &mut Vec<i64>, lab_of: &dyn Fn(&str) -> i64, depth_guard: usize) {
        if depth_guard > 64 || self.pos >= self.b.len() || self.b[self.pos] != b'[' {
            self.ok = false;
            return;
        }
        // tabs directly in front of the bracket
        let mut tabs = 0i64;
        let mut q = self.pos;
        while q > 0 && self.b[q - 1] == b'\t' {
            tabs += 1;
            q -= 1;
        }
        self.pos += 1;
        let start = self.pos;
        while self.pos < self.b.len() && self.b[self.pos] != b'[' && self.b[self.pos] != b']' {
            self.pos += 1;
        }
        let text = String::from_utf8_lossy(&self.b[start..self.pos]).to_string();
        let slot = self.nodes.len();
        self.nodes.push(Value::Null);
        let mut nch = 0i64;
        loop {
            // skip white space between children
            while self.pos < self.b.len() && (self.b[self.pos] as char).is_whitespace() {
                self.pos += 1;
            }
            if self.pos >= self.b.len() {
                self.ok = false;
                break;
            }
            match self.b[self.pos] {
                b'[' => {
                    path.push(nch);
                    self.node(path, lab_of, depth_guard + 1);
                    path.pop();
                    nch += 1;
                    if !self.ok {
                        break;
                    }
                }
                b']' => {
                    self.pos += 1;
                    break;
                }
                _ => {
                    // text after a child and before the closing bracket: not produced by the exporter
                    self.ok = false;
                    break;
                }
            }
        }
        let t = text.trim();
        let mut v = json!({"path": path.clone(), "nch": nch, "tabs": tabs, "leaf": false, "feat": -1, "thr100": 0, "throk": false,
                           "imp100": 0, "impok": false, "lab": -1, "labelok": false});
        if let Some(l) = t.strip_prefix("Label:") {
            v["leaf"] = json!(true);
            v["lab"] = json!(lab_of(l.trim()));
            v["labelok"] = json!(true);
        } else {
            // Val($<idx>$) $ \leq <thr>$ \\ Imp. $<dec>$
            if let (Some(a), Some(b)) = (t.find('('), t.find(')')) {
                if a < b {
                    if let Ok(f) = t[a + 1..b].replace('$', "").trim().parse::<i64>() {
                        v["feat"] = json!(f);
                    }
                }
            }
            if let Some(p) = t.find("\\leq") {
                let rest = &t[p + 4..];
                if let Some(e) = rest.find('$') {
                    let (h, ok) = hundredths(&rest[..e]);
                    v["thr100"] = json!(h);
                    v["throk"] = json!(ok);
                }
            }
            if let Some(p) = t.find("Imp.") {
                let rest = &t[p + 4..];
                if let Some(a) = rest.find('$') {
                    if let Some(e) = rest[a + 1..].find('$') {
                        let (h, ok) = hundredths(&rest[a + 1..a + 1 + e]);
                        v["imp100"] = json!(h);
                        v["impok"] = json!(ok);
                    }
                }
            }
            v["labelok"] = json!(t.starts_with("Val(") || t.starts_with("Var("));
        }
        self.nodes[slot] = v;
    }
}

fn count(hay: &str, needle: &str) -> i64 {
    hay.matches(needle).count() as i64
}

fn parse_tikz(text: &str, lab_of: &dyn Fn(&str) -> i64) -> Value {
    let nbf = count(text, "\\begin{forest}");
    let nef = count(text, "\\end{forest}");
    let mut out = json!({
        "doc": count(text, "\\documentclass"), "begindoc": count(text, "\\begin{document}"), "enddoc": count(text, "\\end{document}"),
        "nbf": nbf, "nef": nef, "parsed": false, "nodes": [], "haslegend": false, "legend": [], "restclean": false,
        "order": false, "len": text.len(),
    });
    let (Some(a), Some(e)) = (text.find("\\begin{forest}"), text.rfind("\\end{forest}")) else {
        return out;
    };
    let a = a + "\\begin{forest}".len();
    if a > e {
        return out;
    }
    // frame order: documentclass < begin{document} < begin{forest} < end{forest} < end{document}
    let bd = text.find("\\begin{document}");
    let ed = text.rfind("\\end{document}");
    let dc = text.find("\\documentclass");
    out["order"] = json!(match (dc, bd, ed) {
        (Some(dc), Some(bd), Some(ed)) => dc < bd && bd < a && e < ed,
        (None, None, None) => true,
        _ => false,
    });
    let region = &text[a..e];
    let Some(first) = region.find('[') else {
        return out;
    };
    // nothing but white space between \begin{forest} and the root bracket
    let lead_clean = region[..first].trim().is_empty();
    let mut p = TkParser { b: region.as_bytes(), pos: first, nodes: vec![], ok: true };
    p.node(&mut vec![], lab_of, 0);
    out["parsed"] = json!(p.ok && lead_clean);
    let rest = if p.pos <= region.len() { &region[p.pos..] } else { "" };
    out["nodes"] = Value::Array(p.nodes);
    let haslegend = rest.contains("\\node");
    out["haslegend"] = json!(haslegend);
    if haslegend {
        out["restclean"] = json!(rest.trim_start().starts_with("\\node") && rest.contains("\\begin{tabular}") && rest.trim_end().ends_with("\\end{tabular}};"));
        // entries  Var(<idx>)&:&<name>\\
        let mut entries = vec![];
        let mut r = rest;
        while let Some(q) = r.find("Var(") {
            let after = &r[q + 4..];
            let Some(cl) = after.find(')') else { break };
            let idx = after[..cl].trim().parse::<i64>().unwrap_or(-1);
            let tail = &after[cl + 1..];
            let (name, adv) = match tail.strip_prefix("&:&") {
                Some(t2) => match t2.find("\\\\") {
                    Some(en) => (t2[..en].to_string(), cl + 1 + 3 + en),
                    None => ("?".to_string(), cl + 1),
                },
                None => ("?".to_string(), cl + 1),
            };
            entries.push(json!({"feat": idx, "namec": code_of(&name), "namedef": name == format!("feature-{}", idx), "empty": name.is_empty()}));
            r = &after[adv..];
        }
        out["legend"] = Value::Array(entries);
    } else {
        out["restclean"] = json!(rest.trim().is_empty());
    }
    out
}

// ---------------------------------------------------------------------------------------------

/// The storage behind one layout of a logical matrix (as in c14.rs).
fn backing<F: Float>(logical: &Array2<F>, lay: &str) -> Array2<F> {
    let (n, d) = logical.dim();
    let filler = |i: usize, j: usize| F::cast(-57.0 + (3 * i + 5 * j) as f64);
    match lay {
        "std" => logical.clone(),
        "forder" => {
            let mut v = Vec::with_capacity(n * d);
            for j in 0..d {
                for i in 0..n {
                    v.push(logical[(i, j)]);
                }
            }
            Array2::from_shape_vec((n, d).f(), v).expect("f-order array")
        }
        "tview" => Array2::from_shape_fn((d, n), |(j, i)| logical[(i, j)]),
        "revrows" => Array2::from_shape_fn((n, d), |(i, j)| logical[(n - 1 - i, j)]),
        "revcols" => Array2::from_shape_fn((n, d), |(i, j)| logical[(i, d - 1 - j)]),
        "everyrow2" => Array2::from_shape_fn((2 * n, d), |(i, j)| if i % 2 == 0 { logical[(i / 2, j)] } else { filler(i, j) }),
        "everycol2" => Array2::from_shape_fn((n, 2 * d), |(i, j)| if j % 2 == 0 { logical[(i, j / 2)] } else { filler(i, j) }),
        other => panic!("unknown layout {}", other),
    }
}

fn go<F: Float, L: linfa::Label + Default + std::fmt::Debug>(inp: &Value, to_l: &dyn Fn(i64) -> L, from_l: &dyn Fn(&L) -> i64) -> Vec<Value> {
    let x = imat(&inp["x"]);
    let n = x.len();
    let d = geti(inp, "d") as usize;
    let sc = &inp["scale"];
    let (off, mul) = (geti(sc, "off"), geti(sc, "mul"));
    let conv = |v: i64| F::cast((off + mul * v) as f64);
    let records = Array2::from_shape_fn((n, d), |(i, j)| conv(x[i][j]));
    let lay = inp.get("lay").and_then(|l| l.as_str()).unwrap_or("std").to_string();
    let rb = backing(&records, &lay);
    match lay.as_str() {
        "std" | "forder" => observe::<F, L, _>(inp, rb, to_l, from_l),
        "tview" => observe::<F, L, _>(inp, rb.t(), to_l, from_l),
        "revrows" => observe::<F, L, _>(inp, rb.slice(s![..;-1, ..]), to_l, from_l),
        "revcols" => observe::<F, L, _>(inp, rb.slice(s![.., ..;-1]), to_l, from_l),
        "everyrow2" => observe::<F, L, _>(inp, rb.slice(s![..;2, ..]), to_l, from_l),
        "everycol2" => observe::<F, L, _>(inp, rb.slice(s![.., ..;2]), to_l, from_l),
        other => panic!("unknown layout {}", other),
    }
}

fn floats_event<F: Float>(name: &str, vs: &[F]) -> Value {
    let f: Vec<f64> = vs.iter().map(|v| f64of(*v)).collect();
    json!({"name": name,
           "v6": f.iter().map(|v| fx6(*v).0).collect::<Vec<_>>(),
           "ok": f.iter().map(|v| fx6(*v).1).collect::<Vec<_>>(),
           "nan": f.iter().map(|v| v.is_nan()).collect::<Vec<_>>(),
           "k": f.iter().map(|v| if v.is_nan() { json!([0, 0, 0]) } else { key64(*v) }).collect::<Vec<_>>()})
}

fn observe<F: Float, L: linfa::Label + Default + std::fmt::Debug, D: Data<Elem = F>>(
    inp: &Value,
    records: ArrayBase<D, Ix2>,
    to_l: &dyn Fn(i64) -> L,
    from_l: &dyn Fn(&L) -> i64,
) -> Vec<Value> {
    let y = ivec(&inp["y"]);
    let w4 = ivec(&inp["w4"]);
    let names = ivec(&inp["names"]);
    let targets: Array1<L> = Array1::from_iter(y.iter().map(|l| to_l(*l)));
    let mut ds = DatasetBase::new(records, targets);
    if !w4.is_empty() {
        ds = ds.with_weights(Array1::from_iter(w4.iter().map(|q| *q as f32 / 4.0)));
    }
    if !names.is_empty() {
        ds = ds.with_feature_names(names.iter().map(|c| name_of(*c)).collect::<Vec<String>>());
    }
    let crit = match gets(inp, "crit") {
        "gini" => SplitQuality::Gini,
        "entropy" => SplitQuality::Entropy,
        other => panic!("unknown criterion {}", other),
    };
    let md = geti(inp, "md");
    let mid: F = F::cast(geti(inp, "mid6") as f64 / 1e6);
    let params = DecisionTree::<F, L>::params()
        .split_quality(crit)
        .max_depth(if md < 0 { None } else { Some(md as usize) })
        .min_weight_split(geti(inp, "mws4") as f32 / 4.0)
        .min_weight_leaf(geti(inp, "mwl4") as f32 / 4.0)
        .min_impurity_decrease(mid);

    let mut ev = vec![];
    let tree = match guarded(|| params.fit(&ds)) {
        Err(msg) => {
            ev.push(panic_event("fit", &msg));
            return ev;
        }
        Ok(Err(e)) => {
            ev.push(json!({"ev": "fit", "ok": false, "err": e.to_string()}));
            return ev;
        }
        Ok(Ok(t)) => t,
    };
    ev.push(json!({"ev": "fit", "ok": true, "err": ""}));

    // structure through root_node / children; address -> path of every node reached
    let mut nodes = vec![];
    let mut addr: HashMap<usize, Vec<i64>> = HashMap::new();
    let mut budget = 4096usize;
    walk(tree.root_node(), &mut vec![], from_l, &mut nodes, &mut addr, &mut budget);
    match guarded(|| {
        let iter: Vec<Value> = tree
            .iter_nodes()
            .take(4096)
            .map(|nd| match addr.get(&(nd as *const TreeNode<F, L> as usize)) {
                Some(p) => json!({"known": true, "path": p}),
                None => json!({"known": false, "path": []}),
            })
            .collect();
        // a second iterator must yield the same sequence (the iterator does not consume the tree)
        let again = tree.iter_nodes().take(4096).count();
        (iter, again, tree.features(), tree.max_depth(), tree.num_leaves(), tree.root_node().depth())
    }) {
        Ok((iter, again, feats, maxd, nl, rd)) => {
            ev.push(json!({"ev": "tree", "nodes": nodes, "iter": iter, "iter2len": again, "features": feats, "maxdepth": maxd,
                           "nleaves": nl, "rootdepth": rd}));
        }
        Err(msg) => {
            ev.push(panic_event("accessors", &msg));
            return ev;
        }
    }

    // importances
    match guarded(|| (tree.mean_impurity_decrease(), tree.relative_impurity_decrease(), tree.feature_importance())) {
        Ok((mean, rel, imp)) => {
            let same = rel.len() == imp.len() && rel.iter().zip(imp.iter()).all(|(a, b)| f64of(*a).to_bits() == f64of(*b).to_bits());
            ev.push(json!({"ev": "imp", "mean": floats_event("mean", &mean), "rel": floats_event("rel", &rel),
                           "imp": floats_event("imp", &imp), "same": same}));
        }
        Err(msg) => {
            ev.push(panic_event("importance", &msg));
            return ev;
        }
    }

    // Tikz export: documented defaults (no builder call) and the case's builder variant
    let table: Vec<String> = (0..16).map(|k| format!("{:?}", to_l(k))).collect();
    let lab_of = |s: &str| table.iter().position(|t| t == s).map(|p| p as i64).unwrap_or(-1);
    let lg = getb(inp, "lg");
    let cp = getb(inp, "cp");
    match guarded(|| {
        let dflt = tree.export_to_tikz().to_string();
        let mut b = tree.export_to_tikz();
        if lg {
            b = b.with_legend();
        }
        let var = b.complete(cp).to_string();
        (dflt, var)
    }) {
        Ok((dflt, var)) => {
            ev.push(json!({"ev": "tikz", "dflt": parse_tikz(&dflt, &lab_of), "var": parse_tikz(&var, &lab_of)}));
        }
        Err(msg) => ev.push(panic_event("tikz", &msg)),
    }
    ev
}

fn run(case: &Value) -> Vec<Value> {
    let inp = &case["inp"];
    let lt = gets(inp, "lt").to_string();
    let ft = gets(inp, "ft").to_string();
    macro_rules! with_f {
        ($f:ty) => {
            match lt.as_str() {
                // an injective, non-identity embedding of the case's label numbers
                "usize" => go::<$f, usize>(inp, &|l| (7 * l + 3) as usize, &|l| if *l >= 3 && (*l - 3) % 7 == 0 { ((*l - 3) / 7) as i64 } else { -1 }),
                "bool" => go::<$f, bool>(inp, &|l| l == 1, &|l| *l as i64),
                "string" => go::<$f, String>(inp, &|l| format!("c{}", l), &|l| l.strip_prefix('c').and_then(|s| s.parse().ok()).unwrap_or(-1)),
                other => panic!("unknown label type {}", other),
            }
        };
    }
    match ft.as_str() {
        "f64" => with_f!(f64),
        "f32" => with_f!(f32),
        other => panic!("unknown float type {}", other),
    }
}

fn main() {
    run_cases(run);
}
