//! C20 harness: run history of every estimator under different environments.
//!
//! A case names one *configuration* (estimator, variant, data, seed) and a *plan* of environments
//! (rayon pool size, repetition, process).  The parent process splits the cases into chunks and
//! re-invokes this binary (`--child`) once per (chunk, process ordinal): every child is a fresh
//! process with fresh per-process hash seeds.  Inside a child each case is executed once per
//! (threads, repetition) of its plan, inside `pool.install(..)` of a rayon pool of that size
//! (threads = 0: no pool installed, i.e. rayon's global pool).  What comes back (learned
//! quantities, predictions) is recorded as FNV digests of the exact bit patterns (plus raw integer
//! vectors for label-like outputs), and - for the hooked k-means cases - the `kmeans.par` /
//! `kmeans.red` hook events in arrival order.  The harness never compares runs: TLC does
//! (specs/Trace_Determinism.tla).
use linfa::prelude::*;
use linfa::traits::{Fit, FitWith, Predict, Transformer};
use linfa::DatasetBase;
use ndarray::{Array1, Array2, ArrayView1, ArrayView2, Axis};
use rand::SeedableRng;
use rand_xoshiro::Xoshiro256Plus;
use std::collections::BTreeMap;
use std::io::{BufRead, BufReader, BufWriter, Write};
use std::panic::{catch_unwind, AssertUnwindSafe};
use vh::serde_json::{self, json, Value};
use vh::*;

// ---------------------------------------------------------------------------------------------
// observations

struct Obs {
    items: Vec<Value>,          // [name, d1, d2]
    raw: Vec<Value>,            // [name, [ints]]
}

impl Obs {
    fn new() -> Obs {
        Obs { items: vec![], raw: vec![] }
    }
    fn push(&mut self, name: &str, d: Value) {
        let a = d.as_array().expect("digest");
        self.items.push(json!([name, a[0], a[1]]));
    }
    /// exact bit patterns of floats
    fn f<'a>(&mut self, name: &str, vs: impl IntoIterator<Item = &'a f64>) {
        self.push(name, digest_f64(vs));
    }
    fn f32s<'a>(&mut self, name: &str, vs: impl IntoIterator<Item = &'a f32>) {
        self.push(name, digest_f32(vs));
    }
    /// any linfa float type, through its exact widening to f64
    fn ff<'a, F: linfa::Float>(&mut self, name: &str, vs: impl IntoIterator<Item = &'a F>) {
        let w: Vec<f64> = vs.into_iter().map(|v| v.to_f64().unwrap()).collect();
        self.push(name, digest_f64(w.iter()));
    }
    fn f1(&mut self, name: &str, v: f64) {
        self.push(name, digest_f64([v].iter()));
    }
    fn u<'a>(&mut self, name: &str, vs: impl IntoIterator<Item = &'a usize>) {
        self.push(name, digest_usize(vs));
    }
    /// label-like output: digest + raw integers (used by the named deviations of the trace spec)
    fn labels(&mut self, name: &str, vs: &[i64]) {
        let mut bytes = Vec::new();
        for v in vs {
            bytes.extend_from_slice(&v.to_le_bytes());
        }
        self.push(name, digest(&bytes));
        if vs.len() <= 400 {
            self.raw.push(json!([name, vs]));
        }
    }
    fn text(&mut self, name: &str, s: &str) {
        self.push(name, digest(s.as_bytes()));
    }
    /// whole model through serde: canonical JSON (maps sorted by key), floats printed shortest
    /// round-trip = injective on finite bit patterns
    fn model<T: serde::Serialize>(&mut self, name: &str, m: &T) {
        match serde_json::to_value(m) {
            Ok(v) => self.text(name, &serde_json::to_string(&v).unwrap()),
            Err(e) => self.text(name, &format!("serde-error {}", e)),
        }
    }
    fn err(&mut self, name: &str, e: &dyn std::fmt::Display) {
        self.text(name, &format!("error: {}", e));
    }
}

fn opt_labels(v: &Array1<Option<usize>>) -> Vec<i64> {
    v.iter().map(|x| x.map(|c| c as i64).unwrap_or(-1)).collect()
}

// ---------------------------------------------------------------------------------------------
// data

struct Data {
    x: Array2<f64>,
    yc: Array1<usize>,  // class labels
    yr: Array1<f64>,    // regression targets
    xt: Array2<f64>,    // query rows (training rows + in-between points)
    w: Option<Array1<f32>>, // sample weights (lattice data with a `w` field): exact f32 bit patterns
}

struct Lcg(u64);
impl Lcg {
    fn next(&mut self) -> u64 {
        self.0 = self.0.wrapping_mul(6364136223846793005).wrapping_add(1442695040888963407);
        self.0 >> 11
    }
    /// uniform in [0,1) with 53 bits: a pure integer->float conversion (exact, platform independent)
    fn unit(&mut self) -> f64 {
        (self.next() as f64) / ((1u64 << 53) as f64)
    }
    /// roughly bell-shaped in (-3, 3): sum of 6 uniforms (no transcendental functions)
    fn bell(&mut self) -> f64 {
        let mut s = 0.0;
        for _ in 0..6 {
            s += self.unit();
        }
        (s - 3.0) * 1.4142135623730951
    }
}

fn make_data(d: &Value) -> Data {
    let g = gets(d, "g");
    let (x, yc, yr) = match g {
        "lat" => {
            let rows = imat(&d["x"]);
            let nc = rows.first().map(|r| r.len()).unwrap_or(1);
            let x = to_array2(&rows, nc);
            let y = ivec(&d["y"]);
            let yc = Array1::from(y.iter().map(|v| *v as usize).collect::<Vec<_>>());
            let yr = Array1::from(y.iter().map(|v| *v as f64).collect::<Vec<_>>());
            (x, yc, yr)
        }
        "blobs" => {
            let n = geti(d, "n") as usize;
            let dim = geti(d, "d") as usize;
            let c = geti(d, "c") as usize;
            let mut r = Lcg(geti(d, "seed") as u64 * 2654435761 + 12345);
            let centres: Vec<Vec<f64>> = (0..c).map(|_| (0..dim).map(|_| (r.unit() - 0.5) * 16.0).collect()).collect();
            let mut x = Array2::zeros((n, dim));
            let mut yc = Array1::zeros(n);
            let mut yr = Array1::zeros(n);
            for i in 0..n {
                let k = (r.next() as usize) % c;
                let mut t = 0.7;
                for j in 0..dim {
                    let v = centres[k][j] + r.bell() * 0.9;
                    x[[i, j]] = v;
                    t += v * (0.3 + 0.25 * j as f64);
                }
                yc[i] = k;
                yr[i] = t + r.bell() * 0.2;
            }
            (x, yc, yr)
        }
        _ => panic!("unknown data generator {}", g),
    };
    // queries: the training rows (up to 24) and midpoints of consecutive rows
    let n = x.nrows();
    let m = n.min(24);
    let mut q: Vec<Vec<f64>> = Vec::new();
    for i in 0..m {
        q.push(x.row(i).to_vec());
    }
    for i in 0..m.saturating_sub(1) {
        q.push(x.row(i).iter().zip(x.row(i + 1).iter()).map(|(a, b)| (a + b) / 2.0).collect());
    }
    let dim = x.ncols();
    let mut xt = Array2::zeros((q.len(), dim));
    for (i, r) in q.iter().enumerate() {
        for j in 0..dim {
            xt[[i, j]] = r[j];
        }
    }
    // sample weights: [base code, ulps] per row -- the f32 `ulps` steps above the base value
    // (base 1 -> 1.0, 2 -> 0.1f32, 3 -> 0.3f32), built from the bit pattern, no arithmetic
    let w = d.get("w").and_then(|w| w.as_array()).filter(|a| !a.is_empty()).map(|a| {
        Array1::from(a.iter().map(|e| {
            let base: f32 = match e[0].as_i64().unwrap_or(1) {
                2 => 0.1,
                3 => 0.3,
                _ => 1.0,
            };
            f32::from_bits(base.to_bits() + e[1].as_i64().unwrap_or(0) as u32)
        }).collect::<Vec<f32>>())
    });
    Data { x, yc, yr, xt, w }
}

fn data_digest(o: &mut Obs, d: &Data) {
    o.f("data.x", d.x.iter());
    o.u("data.yc", d.yc.iter());
    // (the weights are part of the input: their bit patterns are folded into the third data digest)
    let mut yr: Vec<f64> = d.yr.iter().cloned().collect();
    if let Some(w) = &d.w {
        yr.extend(w.iter().map(|v| f64::from_bits(v.to_bits() as u64)));
    }
    o.f("data.yr", yr.iter());
}

// ---------------------------------------------------------------------------------------------
// estimators.  Every function runs the public API exactly as a user would and records what the
// fitted object exposes.

/// seeds: the case carries an integer; -1 stands for u64::MAX / usize::MAX (the casts below wrap),
/// 0 and 1 are the other special values of the seed grid
fn rng_of(inp: &Value) -> Xoshiro256Plus {
    Xoshiro256Plus::seed_from_u64(geti(inp, "seed") as u64)
}
fn geti_or(v: &Value, k: &str, d: i64) -> i64 {
    v.get(k).and_then(|x| x.as_i64()).unwrap_or(d)
}
fn gets_or<'a>(v: &'a Value, k: &str, d: &'a str) -> &'a str {
    v.get(k).and_then(|x| x.as_str()).unwrap_or(d)
}

mod est_cluster {
    use super::*;
    use linfa_clustering::{Dbscan, GaussianMixtureModel, GmmCovarType, GmmInitMethod, KMeans, KMeansInit, Optics};
    use linfa_nn::distance::L2Dist;

    pub fn kmeans(inp: &Value, d: &Data, o: &mut Obs) {
        if gets_or(inp, "var", "pp").ends_with("_f32") {
            kmeans_t::<f32>(inp, d, o)
        } else {
            kmeans_t::<f64>(inp, d, o)
        }
    }

    fn kmeans_t<F: linfa::Float + serde::Serialize>(inp: &Value, d: &Data, o: &mut Obs) {
        let k = geti_or(inp, "k", 3) as usize;
        let var = gets_or(inp, "var", "pp").trim_end_matches("_f32");
        let x: Array2<F> = d.x.mapv(|v| F::cast(v));
        let xt: Array2<F> = d.xt.mapv(|v| F::cast(v));
        let ds = DatasetBase::from(x.clone());
        let init = match var {
            "random" | "default_random" => KMeansInit::Random,
            "pre" => KMeansInit::Precomputed(x.slice(ndarray::s![0..k, ..]).to_owned()),
            _ => KMeansInit::KMeansPlusPlus,
        };
        let iters = geti_or(inp, "iters", 8) as u64;
        let res = if var.starts_with("default") {
            // builder default seed
            KMeans::params(k).init_method(init).n_runs(2).max_n_iterations(iters).tolerance(F::cast(1e-5)).fit(&ds)
        } else {
            KMeans::params_with(k, rng_of(inp), L2Dist)
                .init_method(init)
                .n_runs(geti_or(inp, "runs", 2) as usize)
                .max_n_iterations(iters)
                .tolerance(F::cast(1e-5))
                .fit(&ds)
        };
        match res {
            Ok(m) => {
                o.model("model", &m);
                o.ff("centroids", m.centroids().iter());
                o.ff("inertia", [m.inertia()].iter());
                o.ff("cluster_count", m.cluster_count().iter());
                let p: Array1<usize> = m.predict(&xt);
                o.labels("predict", &p.iter().map(|v| *v as i64).collect::<Vec<_>>());
                let p: Array1<usize> = m.predict(&x);
                o.u("predict_train", p.iter());
                let t: Array1<F> = m.transform(&x);
                o.ff("transform", t.iter());
            }
            Err(e) => o.err("model", &e),
        }
    }

    /// mini-batch k-means: two `fit_with` batches
    pub fn kmeans_incr(inp: &Value, d: &Data, o: &mut Obs) {
        let k = geti_or(inp, "k", 3) as usize;
        let params = KMeans::params_with(k, rng_of(inp), L2Dist).tolerance(1e-5).check().unwrap();
        let n = d.x.nrows();
        let h = (n / 2).max(k);
        let b1 = DatasetBase::from(d.x.slice(ndarray::s![0..h, ..]).to_owned());
        let b2 = DatasetBase::from(d.x.slice(ndarray::s![(n - h).., ..]).to_owned());
        let mut model = None;
        for b in [&b1, &b2, &b1] {
            model = Some(match params.fit_with(model, b) {
                Ok(m) => m,
                Err(linfa_clustering::IncrKMeansError::NotConverged(m)) => m,
                Err(e) => {
                    o.err("model", &e);
                    return;
                }
            });
        }
        let m = model.unwrap();
        o.model("model", &m);
        o.f("centroids", m.centroids().iter());
        o.f1("inertia", m.inertia());
        o.f("cluster_count", m.cluster_count().iter());
        let p: Array1<usize> = m.predict(&d.xt);
        o.labels("predict", &p.iter().map(|v| *v as i64).collect::<Vec<_>>());
    }

    pub fn gmm(inp: &Value, d: &Data, o: &mut Obs) {
        let k = geti_or(inp, "k", 2) as usize;
        let var = gets_or(inp, "var", "kmeans");
        let ds = DatasetBase::from(d.x.clone());
        // EM budget: on the large data sets (>= 10 000 rows, there for the parallel k-means loops of the
        // initialisation) one restart and five EM iterations keep a fit below 0.2 s
        let (n_runs, n_iter) = if d.x.nrows() >= 10000 { (1, 5) } else { (2, 20) };
        let res = if var == "default" {
            GaussianMixtureModel::params(k).n_runs(n_runs).max_n_iterations(n_iter).tolerance(1e-4).reg_covariance(1e-3).fit(&ds)
        } else {
            GaussianMixtureModel::params_with_rng(k, rng_of(inp))
                .init_method(if var == "random" { GmmInitMethod::Random } else { GmmInitMethod::KMeans })
                .covariance_type(GmmCovarType::Full)
                .n_runs(n_runs)
                .max_n_iterations(n_iter)
                .tolerance(1e-4)
                .reg_covariance(1e-3)
                .fit(&ds)
        };
        match res {
            Ok(m) => {
                o.model("model", &m);
                o.f("weights", m.weights().iter());
                o.f("means", m.means().iter());
                o.f("covariances", m.covariances().iter());
                o.f("precisions", m.precisions().iter());
                let p: Array1<usize> = m.predict(&d.xt);
                o.labels("predict", &p.iter().map(|v| *v as i64).collect::<Vec<_>>());
                o.f("predict_proba", m.predict_proba(&d.xt).iter());
            }
            Err(e) => o.err("model", &e),
        }
    }

    fn tol(inp: &Value) -> f64 {
        geti_or(inp, "tol4", 15000) as f64 / 1e4
    }

    pub fn dbscan(inp: &Value, d: &Data, o: &mut Obs) {
        let mp = geti_or(inp, "minpts", 3) as usize;
        for (name, nn) in [("kd", linfa_nn::CommonNearestNeighbour::KdTree), ("ball", linfa_nn::CommonNearestNeighbour::BallTree), ("lin", linfa_nn::CommonNearestNeighbour::LinearSearch)] {
            match Dbscan::params_with(mp, L2Dist, nn).tolerance(tol(inp)).transform(&d.x) {
                Ok(l) => o.labels(&format!("labels.{}", name), &opt_labels(&l)),
                Err(e) => o.err(&format!("labels.{}", name), &e),
            }
        }
    }

    pub fn optics(inp: &Value, d: &Data, o: &mut Obs) {
        let mp = geti_or(inp, "minpts", 3) as usize;
        match Optics::params(mp).tolerance(tol(inp) * 4.0).transform(d.x.view()) {
            Ok(an) => {
                o.labels("order", &an.iter().map(|s| s.index() as i64).collect::<Vec<_>>());
                let reach: Vec<f64> = an.iter().map(|s| s.reachability_distance().unwrap_or(-1.0)).collect();
                o.f("reachability", reach.iter());
                let core: Vec<f64> = an.iter().map(|s| s.core_distance().unwrap_or(-1.0)).collect();
                o.f("core", core.iter());
            }
            Err(e) => o.err("order", &e),
        }
    }
}

mod est_hier {
    use super::*;
    use linfa_hierarchical::{HierarchicalCluster, Method};
    use linfa_kernel::{Kernel, KernelMethod};

    pub fn hier(inp: &Value, d: &Data, o: &mut Obs) {
        let k = geti_or(inp, "k", 3) as usize;
        let method = match gets_or(inp, "var", "average") {
            "single" => Method::Single,
            "complete" => Method::Complete,
            "ward" => Method::Ward,
            _ => Method::Average,
        };
        let kernel = Kernel::params().method(KernelMethod::Gaussian(geti_or(inp, "eps", 4) as f64)).transform(d.x.view());
        let res = HierarchicalCluster::default().with_method(method).num_clusters(k).transform(kernel);
        match res {
            Ok(ds) => {
                let l: Vec<i64> = ds.targets().iter().map(|v| *v as i64).collect();
                o.labels("labels", &l);
            }
            Err(e) => o.err("labels", &e),
        }
    }
}


mod est_reg {
    use super::*;
    use linfa_elasticnet::{ElasticNet, MultiTaskElasticNet};
    use linfa_linear::{IsotonicRegression, LinearRegression, TweedieRegressor};
    use linfa_pls::{PlsCanonical, PlsCca, PlsRegression};
    use linfa_svm::Svm;

    fn reg_ds(d: &Data) -> DatasetBase<Array2<f64>, Array1<f64>> {
        DatasetBase::new(d.x.clone(), d.yr.clone())
    }
    /// two-column targets: (yr, 2 yr - first feature)
    fn multi_targets(d: &Data) -> Array2<f64> {
        let n = d.x.nrows();
        let mut t = Array2::zeros((n, 2));
        for i in 0..n {
            t[[i, 0]] = d.yr[i];
            t[[i, 1]] = 2.0 * d.yr[i] - d.x[[i, 0]] + (i % 3) as f64;
        }
        t
    }

    pub fn ols(inp: &Value, d: &Data, o: &mut Obs) {
        let ds = reg_ds(d);
        match LinearRegression::new().with_intercept(gets_or(inp, "var", "icpt") != "noicpt").fit(&ds) {
            Ok(m) => {
                o.model("model", &m);
                o.f("params", m.params().iter());
                o.f1("intercept", m.intercept());
                let p: Array1<f64> = m.predict(&d.xt);
                o.f("predict", p.iter());
            }
            Err(e) => o.err("model", &e),
        }
    }

    pub fn glm(inp: &Value, d: &Data, o: &mut Obs) {
        // positive targets for the log link
        // (features scaled to [-1, 1]-ish so that the log link stays finite)
        let y = d.yr.mapv(|v| v.abs() * 0.25 + 0.5);
        let xs = d.x.mapv(|v| v * 0.0625);
        let xts = d.xt.mapv(|v| v * 0.0625);
        let ds = DatasetBase::new(xs, y);
        let power = match gets_or(inp, "var", "normal") {
            "poisson" => 1.0,
            "gamma" => 2.0,
            _ => 0.0,
        };
        match TweedieRegressor::params().power(power).alpha(0.1).max_iter(60).fit(&ds) {
            Ok(m) => {
                o.model("model", &m);
                o.f("coef", m.coef.iter());
                o.f1("intercept", m.intercept);
                let p: Array1<f64> = m.predict(&xts);
                o.f("predict", p.iter());
            }
            Err(e) => o.err("model", &e),
        }
    }

    pub fn isotonic(_inp: &Value, d: &Data, o: &mut Obs) {
        let x1 = d.x.slice(ndarray::s![.., 0..1]).to_owned();
        let mut ds = DatasetBase::new(x1, d.yr.clone());
        if let Some(w) = &d.w {
            ds = ds.with_weights(w.clone());
        }
        match IsotonicRegression::new().fit(&ds) {
            Ok(m) => {
                o.model("model", &m);
                let q = d.xt.slice(ndarray::s![.., 0..1]).to_owned();
                let p: Array1<f64> = m.predict(&q);
                o.f("predict", p.iter());
            }
            Err(e) => o.err("model", &e),
        }
    }

    pub fn elasticnet(inp: &Value, d: &Data, o: &mut Obs) {
        let ds = reg_ds(d);
        let params = match gets_or(inp, "var", "enet") {
            "ridge" => ElasticNet::ridge().penalty(0.3),
            "lasso" => ElasticNet::lasso().penalty(0.3),
            _ => ElasticNet::params().penalty(0.3).l1_ratio(0.5),
        };
        match params.max_iterations(300).tolerance(1e-6).fit(&ds) {
            Ok(m) => {
                o.model("model", &m);
                o.f("hyperplane", m.hyperplane().iter());
                o.f1("intercept", m.intercept());
                o.f1("duality_gap", m.duality_gap());
                o.u("n_steps", [m.n_steps() as usize].iter());
                let p: Array1<f64> = m.predict(&d.xt);
                o.f("predict", p.iter());
            }
            Err(e) => o.err("model", &e),
        }
    }

    pub fn mt_elasticnet(_inp: &Value, d: &Data, o: &mut Obs) {
        let ds = DatasetBase::new(d.x.clone(), multi_targets(d));
        match MultiTaskElasticNet::params().penalty(0.3).l1_ratio(0.5).max_iterations(300).tolerance(1e-6).fit(&ds) {
            Ok(m) => {
                o.model("model", &m);
                o.f("hyperplane", m.hyperplane().iter());
                o.f("intercept", m.intercept().iter());
                o.f1("duality_gap", m.duality_gap());
                let p: Array2<f64> = m.predict(&d.xt);
                o.f("predict", p.iter());
            }
            Err(e) => o.err("model", &e),
        }
    }

    pub fn pls(inp: &Value, d: &Data, o: &mut Obs) {
        let ds = DatasetBase::new(d.x.clone(), multi_targets(d));
        let nc = d.x.ncols().min(2).max(1);
        macro_rules! go {
            ($t:ident) => {
                match $t::<f64>::params(nc).fit(&ds) {
                    Ok(m) => {
                        o.model("model", &m);
                        let (xw, yw) = m.weights();
                        o.f("x_weights", xw.iter());
                        o.f("y_weights", yw.iter());
                        let (xl, yl) = m.loadings();
                        o.f("x_loadings", xl.iter());
                        o.f("y_loadings", yl.iter());
                        o.f("coefficients", m.coefficients().iter());
                        let p: Array2<f64> = m.predict(&d.xt);
                        o.f("predict", p.iter());
                        let t = m.transform(DatasetBase::new(d.x.clone(), multi_targets(d)));
                        o.f("transform.x", t.records().iter());
                        o.f("transform.y", t.targets().iter());
                    }
                    Err(e) => o.err("model", &e),
                }
            };
        }
        match gets_or(inp, "var", "regression") {
            "canonical" => go!(PlsCanonical),
            "cca" => go!(PlsCca),
            _ => go!(PlsRegression),
        }
    }

    pub fn svr(inp: &Value, d: &Data, o: &mut Obs) {
        let ds = reg_ds(d);
        let params = Svm::<f64, f64>::params().c_svr(1.0, Some(0.5));
        let params = if gets_or(inp, "var", "linear") == "gauss" { params.gaussian_kernel(20.0) } else { params.linear_kernel() };
        match params.fit(&ds) {
            Ok(m) => {
                o.model("model", &m);
                o.f("alpha", m.alpha.iter());
                o.f1("rho", m.rho);
                let p: Array1<f64> = m.predict(&d.xt);
                o.f("predict", p.iter());
            }
            Err(e) => o.err("model", &e),
        }
    }
}

mod est_cls {
    use super::*;
    use linfa::composing::MultiClassModel;
    use linfa::dataset::Pr;
    use linfa_bayes::{GaussianNb, MultinomialNb};
    use linfa_ftrl::Ftrl;
    use linfa_logistic::{LogisticRegression, MultiLogisticRegression};
    use linfa_svm::Svm;
    use linfa_trees::{DecisionTree, SplitQuality};

    fn cls_ds(d: &Data) -> DatasetBase<Array2<f64>, Array1<usize>> {
        DatasetBase::new(d.x.clone(), d.yc.clone())
    }
    fn bool_targets(d: &Data) -> Array1<bool> {
        // class 0 against the rest
        d.yc.mapv(|c| c == 0)
    }
    fn ul(v: &Array1<usize>) -> Vec<i64> {
        v.iter().map(|x| *x as i64).collect()
    }

    pub fn logistic(_inp: &Value, d: &Data, o: &mut Obs) {
        let ds = DatasetBase::new(d.x.clone(), bool_targets(d));
        match LogisticRegression::default().alpha(0.5).max_iterations(80).fit(&ds) {
            Ok(m) => {
                o.model("model", &m);
                o.f("params", m.params().iter());
                o.f1("intercept", m.intercept());
                let p: Array1<bool> = m.predict(&d.xt);
                o.labels("predict", &p.iter().map(|b| *b as i64).collect::<Vec<_>>());
                o.f("proba", m.predict_probabilities(&d.xt).iter());
            }
            Err(e) => o.err("model", &e),
        }
    }

    pub fn mlogistic(_inp: &Value, d: &Data, o: &mut Obs) {
        let ds = cls_ds(d);
        match MultiLogisticRegression::default().alpha(0.5).max_iterations(80).fit(&ds) {
            Ok(m) => {
                o.model("model", &m);
                o.f("params", m.params().iter());
                o.f("intercept", m.intercept().iter());
                o.u("classes", m.classes().iter());
                let p: Array1<usize> = m.predict(&d.xt);
                o.labels("predict", &ul(&p));
                o.f("proba", m.predict_probabilities(&d.xt).iter());
            }
            Err(e) => o.err("model", &e),
        }
    }

    pub fn svc(inp: &Value, d: &Data, o: &mut Obs) {
        let ds = DatasetBase::new(d.x.clone(), bool_targets(d));
        let params = Svm::<f64, bool>::params().pos_neg_weights(5.0, 5.0);
        let params = if gets_or(inp, "var", "linear") == "gauss" { params.gaussian_kernel(20.0) } else { params.linear_kernel() };
        match params.fit(&ds) {
            Ok(m) => {
                o.model("model", &m);
                o.f("alpha", m.alpha.iter());
                o.f1("rho", m.rho);
                let p: Array1<bool> = m.predict(&d.xt);
                o.labels("predict", &p.iter().map(|b| *b as i64).collect::<Vec<_>>());
            }
            Err(e) => o.err("model", &e),
        }
    }

    /// multi-class SVM as in the crate's example: one_vs_all + Platt-scaled SVMs + MultiClassModel
    pub fn svm_multi(_inp: &Value, d: &Data, o: &mut Obs) {
        let ds = cls_ds(d);
        let params = Svm::<f64, Pr>::params().gaussian_kernel(20.0).pos_neg_weights(5.0, 5.0);
        let parts = match ds.one_vs_all() {
            Ok(p) => p,
            Err(e) => return o.err("model", &e),
        };
        let mut models = Vec::new();
        let mut per_class: BTreeMap<usize, (Vec<f64>, f64)> = BTreeMap::new();
        for (l, x) in parts.into_iter() {
            match params.fit(&x) {
                Ok(m) => {
                    per_class.insert(l, (m.alpha.clone(), m.rho));
                    models.push((l, m));
                }
                Err(e) => return o.err("model", &e),
            }
        }
        // learned quantities compared as a label -> model map (the order of `one_vs_all` is not a learned quantity)
        for (l, (a, rho)) in &per_class {
            o.f(&format!("alpha.{}", l), a.iter());
            o.f1(&format!("rho.{}", l), *rho);
        }
        let model = models.into_iter().collect::<MultiClassModel<_, _>>();
        let p: Array1<usize> = model.predict(&d.xt);
        o.labels("predict", &ul(&p));
    }

    pub fn tree(inp: &Value, d: &Data, o: &mut Obs) {
        let var = gets_or(inp, "var", "gini");
        let mut ds = cls_ds(d);
        if var.ends_with("_w") {
            // sample weights that are not exactly representable sums
            let w: Vec<f32> = (0..d.x.nrows()).map(|i| 0.1 * ((i % 7) as f32 + 1.0)).collect();
            ds = ds.with_weights(Array1::from(w));
        }
        if let Some(w) = &d.w {
            ds = ds.with_weights(w.clone());
        }
        let q = if var.starts_with("entropy") { SplitQuality::Entropy } else { SplitQuality::Gini };
        let md = geti_or(inp, "depth", 4) as usize;
        match DecisionTree::params().split_quality(q).max_depth(Some(md)).fit(&ds) {
            Ok(m) => {
                o.model("model", &m);
                let p: Array1<usize> = m.predict(&d.xt);
                o.labels("predict", &ul(&p));
                let p: Array1<usize> = m.predict(&d.x);
                o.labels("predict_train", &ul(&p));
                let mut feats = m.features();
                o.labels("features_seq", &feats.iter().map(|v| *v as i64).collect::<Vec<_>>());
                feats.sort();
                o.u("features_set", feats.iter());
                o.f("impurity_decrease", m.mean_impurity_decrease().iter());
                o.f("feature_importance", m.feature_importance().iter());
                o.u("shape", [m.max_depth(), m.num_leaves()].iter());
                let splits: Vec<f64> = m.iter_nodes().map(|n| n.split().1).collect();
                o.f("split_values", splits.iter());
            }
            Err(e) => o.err("model", &e),
        }
    }

    fn str_labels(d: &Data) -> Array1<String> {
        // names whose order differs from the numeric order of the class ids
        d.yc.mapv(|c| format!("{}-class", ["pear", "apple", "fig", "kiwi", "date", "lime", "plum", "nut"][c % 8]))
    }
    fn sl(v: &Array1<String>) -> String {
        v.iter().cloned().collect::<Vec<_>>().join(",")
    }

    /// string labels: hashing and ordering of the classes differ from the usize case
    pub fn tree_str(inp: &Value, d: &Data, o: &mut Obs) {
        let mut ds = DatasetBase::new(d.x.clone(), str_labels(d));
        if let Some(w) = &d.w {
            ds = ds.with_weights(w.clone());
        }
        let q = if gets_or(inp, "var", "gini") == "entropy" { SplitQuality::Entropy } else { SplitQuality::Gini };
        match DecisionTree::params().split_quality(q).max_depth(Some(geti_or(inp, "depth", 4) as usize)).fit(&ds) {
            Ok(m) => {
                o.model("model", &m);
                let p: Array1<String> = m.predict(&d.xt);
                o.text("predict", &sl(&p));
                o.f("impurity_decrease", m.mean_impurity_decrease().iter());
                o.labels("features_seq", &m.features().iter().map(|v| *v as i64).collect::<Vec<_>>());
            }
            Err(e) => o.err("model", &e),
        }
    }

    pub fn gnb_str(_inp: &Value, d: &Data, o: &mut Obs) {
        let ds = DatasetBase::new(d.x.clone(), str_labels(d));
        match GaussianNb::params().fit(&ds) {
            Ok(m) => {
                o.model("model", &m);
                let p: Array1<String> = m.predict(&d.xt);
                o.text("predict", &sl(&p));
            }
            Err(e) => o.err("model", &e),
        }
    }

    /// incremental naive Bayes: two overlapping batches through `fit_with`
    pub fn nb_incr(inp: &Value, d: &Data, o: &mut Obs) {
        let n = d.x.nrows();
        let h = (n * 2 / 3).max(1);
        let lo = d.x.iter().cloned().fold(0.0f64, f64::min);
        let x = d.x.mapv(|v| v - lo);
        let xt = d.xt.mapv(|v| (v - lo).max(0.0));
        let b1 = DatasetBase::new(x.slice(ndarray::s![0..h, ..]).to_owned(), d.yc.slice(ndarray::s![0..h]).to_owned());
        let b2 = DatasetBase::new(x.slice(ndarray::s![(n - h).., ..]).to_owned(), d.yc.slice(ndarray::s![(n - h)..]).to_owned());
        if gets_or(inp, "var", "gaussian") == "multinomial" {
            let params = MultinomialNb::params().check().unwrap();
            let mut model = None;
            for b in [&b1, &b2] {
                model = match params.fit_with(model, b) {
                    Ok(m) => m,
                    Err(e) => return o.err("model", &e),
                };
            }
            if let Some(m) = model {
                o.model("model", &m);
                let p: Array1<usize> = m.predict(&xt);
                o.labels("predict", &ul(&p));
            }
        } else {
            let params = GaussianNb::params().check().unwrap();
            let mut model = None;
            for b in [&b1, &b2] {
                model = match params.fit_with(model, b) {
                    Ok(m) => m,
                    Err(e) => return o.err("model", &e),
                };
            }
            if let Some(m) = model {
                o.model("model", &m);
                let p: Array1<usize> = m.predict(&xt);
                o.labels("predict", &ul(&p));
            }
        }
    }

    pub fn gnb(_inp: &Value, d: &Data, o: &mut Obs) {
        let ds = cls_ds(d);
        match GaussianNb::params().fit(&ds) {
            Ok(m) => {
                o.model("model", &m);
                let p: Array1<usize> = m.predict(&d.xt);
                o.labels("predict", &ul(&p));
                let p: Array1<usize> = m.predict(&d.x);
                o.labels("predict_train", &ul(&p));
            }
            Err(e) => o.err("model", &e),
        }
    }

    pub fn mnb(_inp: &Value, d: &Data, o: &mut Obs) {
        // counts must be non-negative
        let lo = d.x.iter().cloned().fold(0.0f64, f64::min);
        let x = d.x.mapv(|v| v - lo);
        let xt = d.xt.mapv(|v| (v - lo).max(0.0));
        let ds = DatasetBase::new(x.clone(), d.yc.clone());
        match MultinomialNb::params().fit(&ds) {
            Ok(m) => {
                o.model("model", &m);
                let p: Array1<usize> = m.predict(&xt);
                o.labels("predict", &ul(&p));
                let p: Array1<usize> = m.predict(&x);
                o.labels("predict_train", &ul(&p));
            }
            Err(e) => o.err("model", &e),
        }
    }

    pub fn ftrl(inp: &Value, d: &Data, o: &mut Obs) {
        let ds = DatasetBase::new(d.x.clone(), bool_targets(d));
        let res = if gets_or(inp, "var", "seeded") == "default" {
            Ftrl::params().alpha(0.05).fit_with(None, &ds)
        } else {
            Ftrl::params_with_rng(rng_of(inp)).alpha(0.05).fit_with(None, &ds)
        };
        match res {
            Ok(m) => {
                o.model("model", &m);
                o.f("z", m.z().iter());
                o.f("n", m.n().iter());
                o.f("weights", m.get_weights().iter());
                let p: Array1<Pr> = m.predict(&d.xt);
                let pv: Vec<f32> = p.iter().map(|x| **x).collect();
                o.f32s("predict", pv.iter());
            }
            Err(e) => o.err("model", &e),
        }
    }
}

mod est_dec {
    use super::*;
    use linfa_ica::fast_ica::{FastIca, GFunc};
    use linfa_kernel::{Kernel, KernelMethod};
    use linfa_reduction::random_projection::{GaussianRandomProjection, SparseRandomProjection};
    use linfa_reduction::{DiffusionMap, Pca};

    pub fn pca(inp: &Value, d: &Data, o: &mut Obs) {
        let ds = DatasetBase::from(d.x.clone());
        let nc = d.x.ncols().min(2).max(1);
        match Pca::params(nc).whiten(gets_or(inp, "var", "plain") == "whiten").fit(&ds) {
            Ok(m) => {
                o.model("model", &m);
                o.f("components", m.components().iter());
                o.f("mean", m.mean().iter());
                o.f("singular_values", m.singular_values().iter());
                o.f("explained_variance", m.explained_variance().iter());
                let p: Array2<f64> = m.predict(&d.xt);
                o.f("predict", p.iter());
            }
            Err(e) => o.err("model", &e),
        }
    }

    pub fn diffmap(_inp: &Value, d: &Data, o: &mut Obs) {
        let kernel = Kernel::params().method(KernelMethod::Gaussian(8.0)).transform(d.x.view());
        let nc = 2.min(d.x.nrows().saturating_sub(1)).max(1);
        match DiffusionMap::<f64>::params(nc).steps(1).transform(&kernel) {
            Ok(m) => {
                o.f("eigvals", m.eigvals().iter());
                o.f("embedding", m.embedding().iter());
            }
            Err(e) => o.err("model", &e),
        }
    }

    pub fn ica(inp: &Value, d: &Data, o: &mut Obs) {
        let ds = DatasetBase::from(d.x.clone());
        let nc = d.x.ncols().min(2).max(1);
        match FastIca::params().ncomponents(nc).gfunc(GFunc::Logcosh(1.0)).max_iter(60).tol(1e-4).random_state(geti(inp, "seed") as usize).fit(&ds) {
            Ok(m) => {
                o.model("model", &m);
                let p: Array2<f64> = m.predict(&d.xt);
                o.f("predict", p.iter());
            }
            Err(e) => o.err("model", &e),
        }
    }

    pub fn randproj(inp: &Value, d: &Data, o: &mut Obs) {
        let ds = DatasetBase::from(d.x.clone());
        let td = d.x.ncols().min(2).max(1);
        macro_rules! go {
            ($t:ident, $params:expr) => {
                match $params.target_dim(td).fit(&ds) {
                    Ok(m) => {
                        let t: Array2<f64> = m.transform(&d.xt);
                        o.f("transform", t.iter());
                    }
                    Err(e) => o.err("model", &e),
                }
            };
        }
        match gets_or(inp, "var", "gauss") {
            "gauss" => go!(GaussianRandomProjection, GaussianRandomProjection::<f64>::params_with_rng(rng_of(inp))),
            "gauss_default" => go!(GaussianRandomProjection, GaussianRandomProjection::<f64>::params()),
            "sparse_default" => go!(SparseRandomProjection, SparseRandomProjection::<f64>::params()),
            _ => go!(SparseRandomProjection, SparseRandomProjection::<f64>::params_with_rng(rng_of(inp))),
        }
    }
}

mod est_pre {
    use super::*;
    use linfa_preprocessing::linear_scaling::LinearScaler;
    use linfa_preprocessing::norm_scaling::NormScaler;
    use linfa_preprocessing::tf_idf_vectorization::TfIdfVectorizer;
    use linfa_preprocessing::whitening::Whitener;
    use linfa_preprocessing::CountVectorizer;

    pub fn scaler(inp: &Value, d: &Data, o: &mut Obs) {
        let ds = DatasetBase::from(d.x.clone());
        let params = match gets_or(inp, "var", "standard") {
            "minmax" => LinearScaler::min_max(),
            "maxabs" => LinearScaler::max_abs(),
            _ => LinearScaler::standard(),
        };
        match params.fit(&ds) {
            Ok(m) => {
                o.model("model", &m);
                o.f("offsets", m.offsets().iter());
                o.f("scales", m.scales().iter());
                let t: Array2<f64> = m.transform(d.xt.clone());
                o.f("transform", t.iter());
            }
            Err(e) => o.err("model", &e),
        }
    }

    pub fn norm(inp: &Value, d: &Data, o: &mut Obs) {
        let m = match gets_or(inp, "var", "l2") {
            "l1" => NormScaler::l1(),
            "max" => NormScaler::max(),
            _ => NormScaler::l2(),
        };
        let t: Array2<f64> = m.transform(d.xt.clone());
        o.f("transform", t.iter());
    }

    pub fn whiten(inp: &Value, d: &Data, o: &mut Obs) {
        let ds = DatasetBase::from(d.x.clone());
        let params = match gets_or(inp, "var", "pca") {
            "zca" => Whitener::zca(),
            "cholesky" => Whitener::cholesky(),
            _ => Whitener::pca(),
        };
        match params.fit(&ds) {
            Ok(m) => {
                o.model("model", &m);
                o.f("matrix", m.transformation_matrix().iter());
                o.f("mean", m.mean().iter());
                let t: Array2<f64> = m.transform(d.xt.clone());
                o.f("transform", t.iter());
            }
            Err(e) => o.err("model", &e),
        }
    }

    /// documents derived from the rows: one word per cell ("f<col>v<value>") plus the class word
    fn docs(d: &Data) -> Array1<String> {
        let n = d.x.nrows();
        Array1::from((0..n).map(|i| {
            let mut w: Vec<String> = d.x.row(i).iter().enumerate().map(|(j, v)| format!("f{}v{}", j % 2, v.floor() as i64)).collect();
            w.push(format!("c{}", d.yc[i]));
            if i % 2 == 0 {
                w.push("even".to_string());
            }
            w.join(" ")
        }).collect::<Vec<_>>())
    }

    /// The statement compares text vocabularies as word-to-column maps: the matrix is recorded as
    /// word -> column contents, sorted by word (column numbering itself is not compared).
    fn by_word(vocab: &[String], cols: Vec<Vec<f64>>) -> String {
        let mut m: BTreeMap<&String, &Vec<f64>> = BTreeMap::new();
        for (w, c) in vocab.iter().zip(cols.iter()) {
            m.insert(w, c);
        }
        let mut s = String::new();
        for (w, c) in m {
            s.push_str(w);
            s.push(':');
            for v in c {
                s.push_str(&format!("{:016x},", v.to_bits()));
            }
            s.push(';');
        }
        s
    }

    pub fn countvec(inp: &Value, d: &Data, o: &mut Obs) {
        let dc = docs(d);
        let var = gets_or(inp, "var", "plain");
        let mut params = CountVectorizer::params();
        if var == "maxfeat" {
            params = params.max_features(Some(3));
        }
        if var == "bigram" {
            params = params.n_gram_range(1, 2);
        }
        if var == "df" {
            params = params.document_frequency(0.25, 1.0);
        }
        match params.fit(&dc) {
            Ok(m) => {
                let vocab = m.vocabulary().clone();
                let mut sorted = vocab.clone();
                sorted.sort();
                o.text("vocabulary_set", &sorted.join(" "));
                o.u("nentries", [m.nentries()].iter());
                match m.transform(&dc) {
                    Ok(t) => {
                        let t = t.to_dense();
                        let cols: Vec<Vec<f64>> = (0..t.ncols()).map(|j| t.column(j).iter().map(|v| *v as f64).collect()).collect();
                        o.text("transform_by_word", &by_word(&vocab, cols));
                    }
                    Err(e) => o.err("transform_by_word", &e),
                }
            }
            Err(e) => o.err("model", &e),
        }
    }

    pub fn tfidf(inp: &Value, d: &Data, o: &mut Obs) {
        let dc = docs(d);
        let var = gets_or(inp, "var", "plain");
        let mut params = TfIdfVectorizer::default();
        if var == "maxfeat" {
            params = params.max_features(Some(3));
        }
        match params.fit(&dc) {
            Ok(m) => {
                let vocab = m.vocabulary().clone();
                let mut sorted = vocab.clone();
                sorted.sort();
                o.text("vocabulary_set", &sorted.join(" "));
                match m.transform(&dc) {
                    Ok(t) => {
                        let t = t.to_dense();
                        let cols: Vec<Vec<f64>> = (0..t.ncols()).map(|j| t.column(j).iter().cloned().collect()).collect();
                        o.text("transform_by_word", &by_word(&vocab, cols));
                    }
                    Err(e) => o.err("transform_by_word", &e),
                }
            }
            Err(e) => o.err("model", &e),
        }
    }

    /// the per-class weight aggregation of linfa itself (`label_frequencies`, used by the trees),
    /// compared as a class -> weight map
    pub fn label_freq(_inp: &Value, d: &Data, o: &mut Obs) {
        let mut ds = DatasetBase::new(d.x.clone(), d.yc.clone());
        if let Some(w) = &d.w {
            ds = ds.with_weights(w.clone());
        }
        let f: BTreeMap<usize, u32> = ds.label_frequencies().into_iter().map(|(k, v)| (k, v.to_bits())).collect();
        o.text("frequencies", &format!("{:?}", f));
        let mask: Vec<bool> = (0..d.x.nrows()).map(|i| i % 2 == 0).collect();
        let f: BTreeMap<usize, u32> = ds.label_frequencies_with_mask(&mask).into_iter().map(|(k, v)| (k, v.to_bits())).collect();
        o.text("frequencies_masked", &format!("{:?}", f));
    }

    pub fn pearson(_inp: &Value, d: &Data, o: &mut Obs) {
        let ds = DatasetBase::new(d.x.clone(), d.yr.clone());
        let c = ds.pearson_correlation();
        o.f("coeffs", c.get_coeffs().iter());
    }
}

// ---------------------------------------------------------------------------------------------
// builder histories: the same final hyper-parameters reached through different histories of the
// parameter object.  `fresh` sets the final values on a new builder; `reset` first sets OTHER values,
// validates (`check_ref`) and fits the builder on OTHER data, then sets the final values on that same
// object; `clone` does the same but sets the final values on a clone of the used builder; `refinal`
// sets the final values, uses the builder, and sets the final values again on a clone.  Every setter
// that `other` touches is also set by `finalv`, so the final configuration is the same by construction.
mod est_builder {
    use super::*;
    use linfa::ParamGuard;

    macro_rules! history {
        ($hist:expr, $fresh:expr, $other:expr, $use_it:expr, $finalv:expr) => {{
            let fresh = $fresh;
            let other = $other;
            let use_it = $use_it;
            let finalv = $finalv;
            match $hist {
                "reset" => {
                    let p = other(fresh());
                    use_it(&p);
                    finalv(p)
                }
                "clone" => {
                    let p = other(fresh());
                    use_it(&p);
                    let q = p.clone();
                    use_it(&p);
                    finalv(q)
                }
                "refinal" => {
                    let p = finalv(other(fresh()));
                    use_it(&p);
                    finalv(p.clone())
                }
                _ => finalv(fresh()),
            }
        }};
    }

    /// for parameter types that are not `Clone`: the clone steps are replaced by re-using the object
    macro_rules! history_noclone {
        ($hist:expr, $fresh:expr, $other:expr, $use_it:expr, $finalv:expr) => {{
            let fresh = $fresh;
            let other = $other;
            let use_it = $use_it;
            let finalv = $finalv;
            match $hist {
                "reset" | "clone" => {
                    let p = other(fresh());
                    use_it(&p);
                    finalv(p)
                }
                "refinal" => {
                    let p = finalv(other(fresh()));
                    use_it(&p);
                    finalv(p)
                }
                _ => finalv(fresh()),
            }
        }};
    }

    fn hist_of(inp: &Value) -> &str {
        gets_or(inp, "hist", "fresh")
    }

    /// "other data": the rows in reverse order, shifted
    struct Other {
        x: Array2<f64>,
        yc: Array1<usize>,
        yr: Array1<f64>,
    }
    fn other_data(d: &Data) -> Other {
        let n = d.x.nrows();
        let mut x = Array2::zeros(d.x.raw_dim());
        let mut yc = Array1::zeros(n);
        let mut yr = Array1::zeros(n);
        for i in 0..n {
            for j in 0..d.x.ncols() {
                x[[i, j]] = d.x[[n - 1 - i, j]] * 0.5 + 1.0;
            }
            yc[i] = d.yc[n - 1 - i];
            yr[i] = d.yr[n - 1 - i] + 0.25;
        }
        Other { x, yc, yr }
    }

    fn docs_of(x: &Array2<f64>, yc: &Array1<usize>) -> Array1<String> {
        let n = x.nrows();
        Array1::from((0..n).map(|i| {
            let mut w: Vec<String> = x.row(i).iter().enumerate().map(|(j, v)| format!("f{}-v{}", j % 2, v.floor() as i64)).collect();
            w.push(format!("c{}", yc[i]));
            w.push(["a", "b", "x"][i % 3].to_string());       // single-letter tokens
            w.push("Mixed-Case".to_string());
            w.join(" ")
        }).collect::<Vec<_>>())
    }

    fn by_word(vocab: &[String], t: &Array2<f64>) -> String {
        let mut m: BTreeMap<&String, Vec<u64>> = BTreeMap::new();
        for (j, w) in vocab.iter().enumerate() {
            m.insert(w, t.column(j).iter().map(|v| v.to_bits()).collect());
        }
        format!("{:?}", m)
    }

    pub fn countvec(inp: &Value, d: &Data, o: &mut Obs) {
        use linfa_preprocessing::{CountVectorizer, Tokenizer};
        let od = other_data(d);
        let docs = docs_of(&d.x, &d.yc);
        let odocs = docs_of(&od.x, &od.yc);
        let params = history!(
            hist_of(inp),
            || CountVectorizer::params(),
            |p: linfa_preprocessing::CountVectorizerParams| p.n_gram_range(1, 2).document_frequency(0.1, 0.9).max_features(Some(4)).convert_to_lowercase(false),
            |p: &linfa_preprocessing::CountVectorizerParams| {
                let _ = p.check_ref().map(|_| ());
                let _ = p.fit(&odocs);
            },
            |p: linfa_preprocessing::CountVectorizerParams| p
                .tokenizer(Tokenizer::Regex(r"\b[\w-]+\b".to_string()))
                .n_gram_range(1, 1)
                .document_frequency(0.0, 1.0)
                .max_features(None)
                .convert_to_lowercase(true)
        );
        match params.fit(&docs) {
            Ok(m) => {
                let vocab = m.vocabulary().clone();
                let mut sorted = vocab.clone();
                sorted.sort();
                o.text("vocabulary_set", &sorted.join(" "));
                match m.transform(&docs) {
                    Ok(t) => o.text("transform_by_word", &by_word(&vocab, &t.to_dense().mapv(|v| v as f64))),
                    Err(e) => o.err("transform_by_word", &e),
                }
            }
            Err(e) => o.err("model", &e),
        }
    }

    pub fn tfidf(inp: &Value, d: &Data, o: &mut Obs) {
        use linfa_preprocessing::tf_idf_vectorization::TfIdfVectorizer;
        use linfa_preprocessing::Tokenizer;
        let od = other_data(d);
        let docs = docs_of(&d.x, &d.yc);
        let odocs = docs_of(&od.x, &od.yc);
        let params = history!(
            hist_of(inp),
            || TfIdfVectorizer::default(),
            |p: TfIdfVectorizer| p.n_gram_range(1, 2).document_frequency(0.1, 0.9).max_features(Some(4)),
            |p: &TfIdfVectorizer| {
                let _ = p.fit(&odocs);
            },
            |p: TfIdfVectorizer| p.tokenizer(Tokenizer::Regex(r"\b[\w-]+\b".to_string())).n_gram_range(1, 1).document_frequency(0.0, 1.0).max_features(None)
        );
        match params.fit(&docs) {
            Ok(m) => {
                let vocab = m.vocabulary().clone();
                let mut sorted = vocab.clone();
                sorted.sort();
                o.text("vocabulary_set", &sorted.join(" "));
                match m.transform(&docs) {
                    Ok(t) => o.text("transform_by_word", &by_word(&vocab, &t.to_dense())),
                    Err(e) => o.err("transform_by_word", &e),
                }
            }
            Err(e) => o.err("model", &e),
        }
    }

    pub fn kmeans(inp: &Value, d: &Data, o: &mut Obs) {
        use linfa_clustering::{KMeans, KMeansInit, KMeansParams};
        use linfa_nn::distance::L2Dist;
        type P = KMeansParams<f64, Xoshiro256Plus, L2Dist>;
        let od = other_data(d);
        let ods = DatasetBase::from(od.x.clone());
        let ds = DatasetBase::from(d.x.clone());
        let seed = geti(inp, "seed") as u64;
        let params = history!(
            hist_of(inp),
            || KMeans::params_with(3, Xoshiro256Plus::seed_from_u64(seed), L2Dist),
            |p: P| p.n_runs(3).tolerance(1e-2).max_n_iterations(2).init_method(KMeansInit::Random),
            |p: &P| {
                let _ = p.check_ref().map(|_| ());
                let _ = p.fit(&ods);
            },
            |p: P| p.n_runs(2).tolerance(1e-5).max_n_iterations(6).init_method(KMeansInit::KMeansPlusPlus)
        );
        match params.fit(&ds) {
            Ok(m) => {
                o.model("model", &m);
                let p: Array1<usize> = m.predict(&d.xt);
                o.u("predict", p.iter());
            }
            Err(e) => o.err("model", &e),
        }
    }

    pub fn gmm(inp: &Value, d: &Data, o: &mut Obs) {
        use linfa_clustering::{GaussianMixtureModel, GmmCovarType, GmmInitMethod, GmmParams};
        type P = GmmParams<f64, Xoshiro256Plus>;
        let od = other_data(d);
        let ods = DatasetBase::from(od.x.clone());
        let ds = DatasetBase::from(d.x.clone());
        let seed = geti(inp, "seed") as u64;
        let params = history!(
            hist_of(inp),
            || GaussianMixtureModel::params_with_rng(2, Xoshiro256Plus::seed_from_u64(seed)),
            |p: P| p.n_runs(1).tolerance(1e-2).reg_covariance(1e-2).max_n_iterations(3).init_method(GmmInitMethod::Random).covariance_type(GmmCovarType::Full),
            |p: &P| {
                let _ = p.check_ref().map(|_| ());
                let _ = p.fit(&ods);
            },
            |p: P| p.n_runs(2).tolerance(1e-4).reg_covariance(1e-3).max_n_iterations(15).init_method(GmmInitMethod::KMeans).covariance_type(GmmCovarType::Full)
        );
        match params.fit(&ds) {
            Ok(m) => {
                o.model("model", &m);
                o.f("predict_proba", m.predict_proba(&d.xt).iter());
            }
            Err(e) => o.err("model", &e),
        }
    }

    pub fn svc(inp: &Value, d: &Data, o: &mut Obs) {
        use linfa_svm::{Svm, SvmParams};
        type P = SvmParams<f64, bool>;
        let od = other_data(d);
        let ods = DatasetBase::new(od.x.clone(), od.yc.mapv(|c| c == 0));
        let ds = DatasetBase::new(d.x.clone(), d.yc.mapv(|c| c == 0));
        let params = history!(
            hist_of(inp),
            || Svm::<f64, bool>::params(),
            |p: P| p.pos_neg_weights(1.0, 2.0).linear_kernel().eps(1e-2).shrinking(true),
            |p: &P| {
                let _ = p.check_ref().map(|_| ());
                let _ = p.fit(&ods);
            },
            |p: P| p.pos_neg_weights(5.0, 5.0).gaussian_kernel(20.0).eps(1e-3).shrinking(false)
        );
        match params.fit(&ds) {
            Ok(m) => {
                o.model("model", &m);
                let p: Array1<bool> = m.predict(&d.xt);
                o.u("predict", p.iter().map(|b| *b as usize).collect::<Vec<_>>().iter());
            }
            Err(e) => o.err("model", &e),
        }
    }

    pub fn svr(inp: &Value, d: &Data, o: &mut Obs) {
        use linfa_svm::{Svm, SvmParams};
        type P = SvmParams<f64, f64>;
        let od = other_data(d);
        let ods = DatasetBase::new(od.x.clone(), od.yr.clone());
        let ds = DatasetBase::new(d.x.clone(), d.yr.clone());
        let params = history!(
            hist_of(inp),
            || Svm::<f64, f64>::params(),
            |p: P| p.nu_svr(0.4, Some(2.0)).linear_kernel().eps(1e-2),
            |p: &P| {
                let _ = p.check_ref().map(|_| ());
                let _ = p.fit(&ods);
            },
            |p: P| p.c_svr(1.0, Some(0.5)).gaussian_kernel(20.0).eps(1e-3)
        );
        match params.fit(&ds) {
            Ok(m) => {
                o.model("model", &m);
                let p: Array1<f64> = m.predict(&d.xt);
                o.f("predict", p.iter());
            }
            Err(e) => o.err("model", &e),
        }
    }

    pub fn tree(inp: &Value, d: &Data, o: &mut Obs) {
        use linfa_trees::{DecisionTree, DecisionTreeParams, SplitQuality};
        type P = DecisionTreeParams<f64, usize>;
        let od = other_data(d);
        let ods = DatasetBase::new(od.x.clone(), od.yc.clone());
        let ds = DatasetBase::new(d.x.clone(), d.yc.clone());
        let params = history!(
            hist_of(inp),
            || DecisionTree::params(),
            |p: P| p.split_quality(SplitQuality::Entropy).max_depth(Some(2)).min_weight_split(4.0).min_weight_leaf(2.0).min_impurity_decrease(1e-3),
            |p: &P| {
                let _ = p.check_ref().map(|_| ());
                let _ = p.fit(&ods);
            },
            |p: P| p.split_quality(SplitQuality::Gini).max_depth(Some(5)).min_weight_split(2.0).min_weight_leaf(1.0).min_impurity_decrease(1e-5)
        );
        match params.fit(&ds) {
            Ok(m) => {
                o.model("model", &m);
                let p: Array1<usize> = m.predict(&d.xt);
                o.u("predict", p.iter());
            }
            Err(e) => o.err("model", &e),
        }
    }

    pub fn elasticnet(inp: &Value, d: &Data, o: &mut Obs) {
        use linfa_elasticnet::{ElasticNet, ElasticNetParams};
        type P = ElasticNetParams<f64>;
        let od = other_data(d);
        let ods = DatasetBase::new(od.x.clone(), od.yr.clone());
        let ds = DatasetBase::new(d.x.clone(), d.yr.clone());
        let params = history!(
            hist_of(inp),
            || ElasticNet::params(),
            |p: P| p.penalty(1.5).l1_ratio(0.9).with_intercept(false).tolerance(1e-2).max_iterations(5),
            |p: &P| {
                let _ = p.check_ref().map(|_| ());
                let _ = p.fit(&ods);
            },
            |p: P| p.penalty(0.3).l1_ratio(0.5).with_intercept(true).tolerance(1e-6).max_iterations(300)
        );
        match params.fit(&ds) {
            Ok(m) => {
                o.model("model", &m);
                let p: Array1<f64> = m.predict(&d.xt);
                o.f("predict", p.iter());
            }
            Err(e) => o.err("model", &e),
        }
    }

    pub fn logistic(inp: &Value, d: &Data, o: &mut Obs) {
        use linfa_logistic::LogisticRegression;
        type P = LogisticRegression<f64>;
        let od = other_data(d);
        let ods = DatasetBase::new(od.x.clone(), od.yc.mapv(|c| c == 0));
        let ds = DatasetBase::new(d.x.clone(), d.yc.mapv(|c| c == 0));
        let params = history!(
            hist_of(inp),
            || LogisticRegression::default(),
            |p: P| p.alpha(2.0).with_intercept(false).max_iterations(3).gradient_tolerance(1e-2),
            |p: &P| {
                let _ = p.check_ref().map(|_| ());
                let _ = p.fit(&ods);
            },
            |p: P| p.alpha(0.5).with_intercept(true).max_iterations(80).gradient_tolerance(1e-4)
        );
        match params.fit(&ds) {
            Ok(m) => {
                o.model("model", &m);
                o.f("proba", m.predict_probabilities(&d.xt).iter());
            }
            Err(e) => o.err("model", &e),
        }
    }

    pub fn mlogistic(inp: &Value, d: &Data, o: &mut Obs) {
        use linfa_logistic::MultiLogisticRegression;
        type P = MultiLogisticRegression<f64>;
        let od = other_data(d);
        let ods = DatasetBase::new(od.x.clone(), od.yc.clone());
        let ds = DatasetBase::new(d.x.clone(), d.yc.clone());
        let params = history!(
            hist_of(inp),
            || MultiLogisticRegression::default(),
            |p: P| p.alpha(2.0).with_intercept(false).max_iterations(3).gradient_tolerance(1e-2),
            |p: &P| {
                let _ = p.check_ref().map(|_| ());
                let _ = p.fit(&ods);
            },
            |p: P| p.alpha(0.5).with_intercept(true).max_iterations(80).gradient_tolerance(1e-4)
        );
        match params.fit(&ds) {
            Ok(m) => {
                o.model("model", &m);
                o.f("proba", m.predict_probabilities(&d.xt).iter());
            }
            Err(e) => o.err("model", &e),
        }
    }

    pub fn glm(inp: &Value, d: &Data, o: &mut Obs) {
        use linfa_linear::{TweedieRegressor, TweedieRegressorParams};
        type P = TweedieRegressorParams<f64>;
        let od = other_data(d);
        let ods = DatasetBase::new(od.x.mapv(|v| v * 0.0625), od.yr.mapv(|v| v.abs() * 0.25 + 0.5));
        let ds = DatasetBase::new(d.x.mapv(|v| v * 0.0625), d.yr.mapv(|v| v.abs() * 0.25 + 0.5));
        let params = history!(
            hist_of(inp),
            || TweedieRegressor::params(),
            |p: P| p.power(0.0).alpha(1.0).fit_intercept(false).max_iter(3).tol(1e-2),
            |p: &P| {
                let _ = p.check_ref().map(|_| ());
                let _ = p.fit(&ods);
            },
            |p: P| p.power(1.0).alpha(0.1).fit_intercept(true).max_iter(60).tol(1e-4)
        );
        match params.fit(&ds) {
            Ok(m) => {
                o.model("model", &m);
                let p: Array1<f64> = m.predict(&d.xt.mapv(|v| v * 0.0625));
                o.f("predict", p.iter());
            }
            Err(e) => o.err("model", &e),
        }
    }

    pub fn pls(inp: &Value, d: &Data, o: &mut Obs) {
        use linfa_pls::{PlsRegression, PlsRegressionParams};
        type P = PlsRegressionParams<f64>;
        let two = |x: &Array2<f64>, y: &Array1<f64>| {
            let mut t = Array2::zeros((x.nrows(), 2));
            for i in 0..x.nrows() {
                t[[i, 0]] = y[i];
                t[[i, 1]] = 2.0 * y[i] - x[[i, 0]] + (i % 3) as f64;
            }
            t
        };
        let od = other_data(d);
        let ods = DatasetBase::new(od.x.clone(), two(&od.x, &od.yr));
        let ds = DatasetBase::new(d.x.clone(), two(&d.x, &d.yr));
        let nc = d.x.ncols().min(2).max(1);
        let params = history_noclone!(
            hist_of(inp),
            || PlsRegression::<f64>::params(nc),
            |p: P| p.max_iterations(3).tolerance(1e-2).scale(false),
            |p: &P| {
                let _ = p.check_ref().map(|_| ());
                let _ = p.fit(&ods);
            },
            |p: P| p.max_iterations(200).tolerance(1e-8).scale(true)
        );
        match params.fit(&ds) {
            Ok(m) => {
                o.model("model", &m);
                let p: Array2<f64> = m.predict(&d.xt);
                o.f("predict", p.iter());
            }
            Err(e) => o.err("model", &e),
        }
    }

    pub fn ftrl(inp: &Value, d: &Data, o: &mut Obs) {
        use linfa_ftrl::{Ftrl, FtrlParams};
        type P = FtrlParams<f64, Xoshiro256Plus>;
        let od = other_data(d);
        let ods = DatasetBase::new(od.x.clone(), od.yc.mapv(|c| c == 0));
        let ds = DatasetBase::new(d.x.clone(), d.yc.mapv(|c| c == 0));
        let seed = geti(inp, "seed") as u64;
        let params = history!(
            hist_of(inp),
            || Ftrl::params_with_rng(Xoshiro256Plus::seed_from_u64(seed)),
            |p: P| p.alpha(0.5).beta(2.0).l1_ratio(0.5).l2_ratio(0.1),
            |p: &P| {
                let _ = p.check_ref().map(|_| ());
                let _ = p.fit_with(None, &ods);
            },
            |p: P| p.alpha(0.05).beta(1.0).l1_ratio(0.01).l2_ratio(1.0)
        );
        match params.fit_with(None, &ds) {
            Ok(m) => {
                o.model("model", &m);
                o.f("weights", m.get_weights().iter());
            }
            Err(e) => o.err("model", &e),
        }
    }

    pub fn gnb(inp: &Value, d: &Data, o: &mut Obs) {
        use linfa_bayes::{GaussianNb, GaussianNbParams};
        type P = GaussianNbParams<f64, usize>;
        let od = other_data(d);
        let ods = DatasetBase::new(od.x.clone(), od.yc.clone());
        let ds = DatasetBase::new(d.x.clone(), d.yc.clone());
        let params = history!(
            hist_of(inp),
            || GaussianNb::params(),
            |p: P| p.var_smoothing(1e-2),
            |p: &P| {
                let _ = p.check_ref().map(|_| ());
                let _ = p.fit(&ods);
            },
            |p: P| p.var_smoothing(1e-9)
        );
        match params.fit(&ds) {
            Ok(m) => {
                o.model("model", &m);
                let p: Array1<usize> = m.predict(&d.xt);
                o.u("predict", p.iter());
            }
            Err(e) => o.err("model", &e),
        }
    }

    pub fn dbscan(inp: &Value, d: &Data, o: &mut Obs) {
        use linfa_clustering::{Dbscan, DbscanParams};
        use linfa_nn::{distance::L2Dist, CommonNearestNeighbour};
        type P = DbscanParams<f64, L2Dist, CommonNearestNeighbour>;
        let od = other_data(d);
        let params = history!(
            hist_of(inp),
            || Dbscan::params(3),
            |p: P| p.tolerance(0.3).nn_algo(CommonNearestNeighbour::LinearSearch),
            |p: &P| {
                let _ = p.check_ref().map(|_| ());
                let _ = p.transform(&od.x);
            },
            |p: P| p.tolerance(1.5).nn_algo(CommonNearestNeighbour::BallTree)
        );
        match params.transform(&d.x) {
            Ok(l) => o.labels("labels", &opt_labels(&l)),
            Err(e) => o.err("labels", &e),
        }
    }

    pub fn ica(inp: &Value, d: &Data, o: &mut Obs) {
        use linfa_ica::fast_ica::{FastIca, GFunc};
        use linfa_ica::hyperparams::FastIcaParams;
        type P = FastIcaParams<f64>;
        let od = other_data(d);
        let ods = DatasetBase::from(od.x.clone());
        let ds = DatasetBase::from(d.x.clone());
        let nc = d.x.ncols().min(2).max(1);
        let seed = geti(inp, "seed") as usize;
        let params = history!(
            hist_of(inp),
            || FastIca::params(),
            |p: P| p.ncomponents(1).gfunc(GFunc::Exp).max_iter(3).tol(1e-1).random_state(seed.wrapping_add(17)),
            |p: &P| {
                let _ = p.check_ref().map(|_| ());
                let _ = p.fit(&ods);
            },
            |p: P| p.ncomponents(nc).gfunc(GFunc::Logcosh(1.0)).max_iter(60).tol(1e-4).random_state(seed)
        );
        match params.fit(&ds) {
            Ok(m) => {
                o.model("model", &m);
                let p: Array2<f64> = m.predict(&d.xt);
                o.f("predict", p.iter());
            }
            Err(e) => o.err("model", &e),
        }
    }

    pub fn randproj(inp: &Value, d: &Data, o: &mut Obs) {
        use linfa_reduction::random_projection::{GaussianRandomProjection, GaussianRandomProjectionParams};
        type P = GaussianRandomProjectionParams<Xoshiro256Plus>;
        let od = other_data(d);
        let ods = DatasetBase::from(od.x.clone());
        let ds = DatasetBase::from(d.x.clone());
        let td = d.x.ncols().min(2).max(1);
        let seed = geti(inp, "seed") as u64;
        let params = history_noclone!(
            hist_of(inp),
            || GaussianRandomProjection::<f64>::params_with_rng(Xoshiro256Plus::seed_from_u64(seed)),
            |p: P| p.target_dim(1),
            |p: &P| {
                let _ = p.check_ref().map(|_| ());
                let _ = p.fit(&ods);
            },
            |p: P| p.target_dim(td)
        );
        match params.fit(&ds) {
            Ok(m) => {
                let t: Array2<f64> = m.transform(&d.xt);
                o.f("transform", t.iter());
            }
            Err(e) => o.err("model", &e),
        }
    }

    pub fn pca(inp: &Value, d: &Data, o: &mut Obs) {
        use linfa_reduction::{Pca, PcaParams};
        let od = other_data(d);
        let ods = DatasetBase::from(od.x.clone());
        let ds = DatasetBase::from(d.x.clone());
        let nc = d.x.ncols().min(2).max(1);
        let params = history!(
            hist_of(inp),
            || Pca::params(nc),
            |p: PcaParams| p.whiten(true),
            |p: &PcaParams| {
                let _ = p.fit(&ods);
            },
            |p: PcaParams| p.whiten(false)
        );
        match params.fit(&ds) {
            Ok(m) => {
                o.model("model", &m);
                let p: Array2<f64> = m.predict(&d.xt);
                o.f("predict", p.iter());
            }
            Err(e) => o.err("model", &e),
        }
    }

    pub fn hier(inp: &Value, d: &Data, o: &mut Obs) {
        use linfa_hierarchical::{HierarchicalCluster, Method};
        use linfa_kernel::{Kernel, KernelMethod};
        let od = other_data(d);
        let kern = |x: &Array2<f64>| Kernel::params().method(KernelMethod::Gaussian(4.0)).transform(x.view());
        let params = history!(
            hist_of(inp),
            || HierarchicalCluster::<f64>::default(),
            |p: HierarchicalCluster<f64>| p.with_method(Method::Single).max_distance(0.5),
            |p: &HierarchicalCluster<f64>| {
                let _ = p.check_ref().map(|_| ());
                let _ = p.transform(kern(&od.x)).map(|_| ());
            },
            |p: HierarchicalCluster<f64>| p.with_method(Method::Average).num_clusters(3)
        );
        match params.transform(kern(&d.x)) {
            Ok(ds) => o.labels("labels", &ds.targets().iter().map(|v| *v as i64).collect::<Vec<_>>()),
            Err(e) => o.err("labels", &e),
        }
    }

    pub fn scaler(inp: &Value, d: &Data, o: &mut Obs) {
        use linfa_preprocessing::linear_scaling::{LinearScaler, LinearScalerParams, ScalingMethod};
        let od = other_data(d);
        let ods = DatasetBase::from(od.x.clone());
        let ds = DatasetBase::from(d.x.clone());
        let params = history!(
            hist_of(inp),
            || LinearScaler::<f64>::standard(),
            |p: LinearScalerParams<f64>| p.method(ScalingMethod::MaxAbs),
            |p: &LinearScalerParams<f64>| {
                let _ = p.fit(&ods);
            },
            |p: LinearScalerParams<f64>| p.method(ScalingMethod::MinMax(-1.0, 2.0))
        );
        match params.fit(&ds) {
            Ok(m) => {
                o.model("model", &m);
                let t: Array2<f64> = m.transform(d.xt.clone());
                o.f("transform", t.iter());
            }
            Err(e) => o.err("model", &e),
        }
    }

    pub fn whiten(inp: &Value, d: &Data, o: &mut Obs) {
        use linfa_preprocessing::whitening::{Whitener, WhiteningMethod};
        let od = other_data(d);
        let ods = DatasetBase::from(od.x.clone());
        let ds = DatasetBase::from(d.x.clone());
        let params = history!(
            hist_of(inp),
            || Whitener::pca(),
            |p: Whitener| p.method(WhiteningMethod::Cholesky),
            |p: &Whitener| {
                let _ = p.fit(&ods);
            },
            |p: Whitener| p.method(WhiteningMethod::Zca)
        );
        match params.fit(&ds) {
            Ok(m) => {
                o.model("model", &m);
                let t: Array2<f64> = m.transform(d.xt.clone());
                o.f("transform", t.iter());
            }
            Err(e) => o.err("model", &e),
        }
    }
}

type EstFn = fn(&Value, &Data, &mut Obs);

fn registry() -> BTreeMap<&'static str, EstFn> {
    let mut m: BTreeMap<&'static str, EstFn> = BTreeMap::new();
    m.insert("kmeans", est_cluster::kmeans);
    m.insert("kmeans_incr", est_cluster::kmeans_incr);
    m.insert("gmm", est_cluster::gmm);
    m.insert("dbscan", est_cluster::dbscan);
    m.insert("optics", est_cluster::optics);
    m.insert("hier", est_hier::hier);
    m.insert("ols", est_reg::ols);
    m.insert("glm", est_reg::glm);
    m.insert("isotonic", est_reg::isotonic);
    m.insert("elasticnet", est_reg::elasticnet);
    m.insert("mt_elasticnet", est_reg::mt_elasticnet);
    m.insert("pls", est_reg::pls);
    m.insert("svr", est_reg::svr);
    m.insert("logistic", est_cls::logistic);
    m.insert("mlogistic", est_cls::mlogistic);
    m.insert("svc", est_cls::svc);
    m.insert("svm_multi", est_cls::svm_multi);
    m.insert("tree", est_cls::tree);
    m.insert("gnb", est_cls::gnb);
    m.insert("tree_str", est_cls::tree_str);
    m.insert("gnb_str", est_cls::gnb_str);
    m.insert("nb_incr", est_cls::nb_incr);
    m.insert("mnb", est_cls::mnb);
    m.insert("ftrl", est_cls::ftrl);
    m.insert("pca", est_dec::pca);
    m.insert("diffmap", est_dec::diffmap);
    m.insert("ica", est_dec::ica);
    m.insert("randproj", est_dec::randproj);
    m.insert("scaler", est_pre::scaler);
    m.insert("norm", est_pre::norm);
    m.insert("whiten", est_pre::whiten);
    m.insert("countvec", est_pre::countvec);
    m.insert("tfidf", est_pre::tfidf);
    m.insert("pearson", est_pre::pearson);
    m.insert("label_freq", est_pre::label_freq);
    m.insert("b_countvec", est_builder::countvec);
    m.insert("b_tfidf", est_builder::tfidf);
    m.insert("b_kmeans", est_builder::kmeans);
    m.insert("b_gmm", est_builder::gmm);
    m.insert("b_svc", est_builder::svc);
    m.insert("b_svr", est_builder::svr);
    m.insert("b_tree", est_builder::tree);
    m.insert("b_elasticnet", est_builder::elasticnet);
    m.insert("b_logistic", est_builder::logistic);
    m.insert("b_mlogistic", est_builder::mlogistic);
    m.insert("b_glm", est_builder::glm);
    m.insert("b_pls", est_builder::pls);
    m.insert("b_ftrl", est_builder::ftrl);
    m.insert("b_gnb", est_builder::gnb);
    m.insert("b_dbscan", est_builder::dbscan);
    m.insert("b_ica", est_builder::ica);
    m.insert("b_randproj", est_builder::randproj);
    m.insert("b_pca", est_builder::pca);
    m.insert("b_hier", est_builder::hier);
    m.insert("b_scaler", est_builder::scaler);
    m.insert("b_whiten", est_builder::whiten);
    m
}

// ---------------------------------------------------------------------------------------------
// one run of one configuration in one environment

const SITES: [&str; 10] = ["memberships", "min_dists", "memberships_dists", "centroids", "centroids_incr", "fit", "fit_with", "fit_with_init", "plusplus", "cluster_count"];
const SITE_OTHER: i64 = 99;

/// hook line -> compact integer tuple [code, site, tid, seq, arg]
/// code: 1 par.begin 2 par.row 3 par.end 4 red.begin 5 red.row 6 red.end 7 red.sum,
/// 8 par.beginc 9 red.beginc (coarse loops: rows not logged) 10 red.val, 0 = unknown
fn compact_hook(line: &str) -> Value {
    let v: Value = serde_json::from_str(line).unwrap_or(json!({}));
    let ev = v.get("ev").and_then(|x| x.as_str()).unwrap_or("");
    let ph = v.get("ph").and_then(|x| x.as_str()).unwrap_or("");
    let code = match (ev, ph) {
        ("kmeans.par", "begin") => 1,
        ("kmeans.par", "row") => 2,
        ("kmeans.par", "end") => 3,
        ("kmeans.red", "begin") => 4,
        ("kmeans.red", "row") => 5,
        ("kmeans.red", "end") => 6,
        ("kmeans.red", "sum") => 7,
        ("kmeans.par", "beginc") => 8,
        ("kmeans.red", "beginc") => 9,
        ("kmeans.red", "val") => 10,
        _ => 0,
    };
    let site = v.get("site").and_then(|x| x.as_str()).map(|s| SITES.iter().position(|t| *t == s).map(|p| p as i64 + 1).unwrap_or(SITE_OTHER)).unwrap_or(0);
    let arg = v.get("row").or_else(|| v.get("n")).and_then(|x| x.as_i64()).unwrap_or(-1);
    if code == 10 {
        // value event: the bit patterns (hex strings) of the reduction result used by the code and of
        // the sequential reduction recomputed by the hook; TLC compares them
        return json!([code, site, geti_or(&v, "tid", -1), geti_or(&v, "seq", -1), arg, gets_or(&v, "used", "?"), gets_or(&v, "fold", "?")]);
    }
    json!([code, site, geti_or(&v, "tid", -1), geti_or(&v, "seq", -1), arg])
}

struct Pools(BTreeMap<usize, rayon::ThreadPool>);
impl Pools {
    fn get(&mut self, n: usize) -> &rayon::ThreadPool {
        self.0.entry(n).or_insert_with(|| rayon::ThreadPoolBuilder::new().num_threads(n).build().expect("rayon pool"))
    }
}

fn run_once(f: EstFn, inp: &Value, data: &Data, threads: usize, hook: bool, pools: &mut Pools) -> (Value, Value, Value, Option<String>) {
    let mut obs = Obs::new();
    data_digest(&mut obs, data);
    if hook {
        linfa::verif_hook::drain();
        linfa::verif_hook::enable(true);
    }
    let r = catch_unwind(AssertUnwindSafe(|| {
        if threads == 0 {
            f(inp, data, &mut obs)
        } else {
            let pool = pools.get(threads);
            pool.install(|| f(inp, data, &mut obs))
        }
    }));
    let mut par = vec![];
    if hook {
        linfa::verif_hook::enable(false);
        let lines = linfa::verif_hook::drain();
        // guard against an event flood (a tree whose hook logs large loops row by row): keep a prefix
        // and an unknown-code marker, which no action of the schedule model explains
        const MAX_HOOK_EVENTS: usize = 400_000;
        par = lines.iter().take(MAX_HOOK_EVENTS).map(|l| compact_hook(l)).collect();
        // thread ordinals are process-wide (every pool of every earlier case has consumed some): they are
        // re-numbered densely in order of first appearance within this run (an injective re-encoding)
        let mut dense: BTreeMap<i64, i64> = BTreeMap::new();
        for h in par.iter_mut() {
            if let Some(t) = h.get(2).and_then(|x| x.as_i64()) {
                let next = dense.len() as i64;
                let d = *dense.entry(t).or_insert(next);
                h[2] = json!(d);
            }
        }
        if lines.len() > MAX_HOOK_EVENTS {
            par.truncate(1000);
            par.push(json!([0, 0, -1, -1, lines.len() as i64]));
        }
    }
    let pmsg = r.err().map(|p| panic_msg(&p));
    if let Some(m) = &pmsg {
        // a panic of the estimator is an outcome: it has to be the same in every environment.
        // Only the data digests and the message are kept (what was observed before the panic is dropped).
        obs.items.truncate(3);
        obs.raw.clear();
        obs.text("panic", m);
    }
    (Value::Array(obs.items), Value::Array(obs.raw), Value::Array(par), pmsg)
}

fn run_case_in_process(case: &Value, proc_ord: i64, pools: &mut Pools, reg: &BTreeMap<&'static str, EstFn>) -> Vec<Value> {
    let inp = &case["inp"];
    let est = gets(inp, "est");
    let hook = inp.get("hook").and_then(|x| x.as_bool()).unwrap_or(false);
    let mut out = vec![];
    let f = match reg.get(est) {
        Some(f) => *f,
        None => {
            out.push(json!({"ev": "panic", "msg": format!("unknown estimator {}", est)}));
            return out;
        }
    };
    let data = match catch_unwind(AssertUnwindSafe(|| make_data(&inp["data"]))) {
        Ok(d) => d,
        Err(p) => {
            out.push(json!({"ev": "panic", "msg": format!("data: {}", panic_msg(&p))}));
            return out;
        }
    };
    // builder histories of the case (default: the fresh builder only); the history is part of the
    // environment of a run, the estimator reads it from `inp.hist`
    let hists: Vec<String> = inp.get("hists").and_then(|h| h.as_array()).map(|a| a.iter().filter_map(|x| x.as_str().map(|s| s.to_string())).collect()).unwrap_or_else(|| vec!["fresh".to_string()]);
    for hist in &hists {
        let mut inp_h = inp.clone();
        inp_h["hist"] = json!(hist);
        for pl in geta(inp, "plan") {
            let threads = pl[0].as_i64().unwrap() as usize;
            let reps = pl[1].as_i64().unwrap();
            for rep in 0..reps {
                let (obs, raw, par, pmsg) = run_once(f, &inp_h, &data, threads, hook, pools);
                out.push(json!({"ev": "run", "proc": proc_ord, "thr": threads, "rep": rep, "hist": hist, "obs": obs, "raw": raw, "par": par,
                                "panic": pmsg.unwrap_or_default()}));
            }
        }
    }
    out
}

// ---------------------------------------------------------------------------------------------
// process orchestration

fn read_ndjson(path: &str) -> Vec<Value> {
    let f = std::fs::File::open(path).expect("open ndjson");
    BufReader::new(f).lines().map(|l| l.unwrap()).filter(|l| !l.trim().is_empty()).map(|l| serde_json::from_str(&l).expect("json")).collect()
}
fn write_ndjson(path: &str, vals: &[Value]) {
    let f = std::fs::File::create(path).expect("create ndjson");
    let mut w = BufWriter::new(f);
    for v in vals {
        serde_json::to_writer(&mut w, v).unwrap();
        w.write_all(b"\n").unwrap();
    }
    w.flush().unwrap();
}

fn child_main(args: &[String]) {
    // --child cases out proc
    silence_panics();
    let cases = read_ndjson(&args[0]);
    let proc_ord: i64 = args[2].parse().unwrap();
    let reg = registry();
    let mut pools = Pools(BTreeMap::new());
    let mut out = vec![];
    for c in &cases {
        let np = geti_or(&c["inp"], "nproc", 1);
        if proc_ord >= np {
            continue;
        }
        let ev = run_case_in_process(c, proc_ord, &mut pools, &reg);
        out.push(json!({"id": c["id"], "ev": ev}));
    }
    write_ndjson(&args[1], &out);
}

fn parent_main(args: &[String]) {
    let cases = read_ndjson(&args[0]);
    let outp = &args[1];
    let exe = std::env::current_exe().expect("current_exe");
    let nchunks: usize = std::env::var("C20_CHUNKS").ok().and_then(|s| s.parse().ok()).unwrap_or(4).max(1);
    let maxpar: usize = std::env::var("C20_PAR").ok().and_then(|s| s.parse().ok()).unwrap_or(3).max(1);
    let maxproc = cases.iter().map(|c| geti_or(&c["inp"], "nproc", 1)).max().unwrap_or(1);
    // cases are dealt round-robin to the chunks (the generator sorts them, so contiguous chunks would
    // put all the large data sets into one child)
    let nchunks = nchunks.min(cases.len().max(1));
    let dealt: Vec<Vec<Value>> = (0..nchunks).map(|ci| cases.iter().skip(ci).step_by(nchunks).cloned().collect()).collect();
    let tmp = format!("{}.tmp", outp);
    std::fs::create_dir_all(&tmp).unwrap();
    // jobs: (chunk index, proc ordinal)
    let mut jobs = vec![];
    for (ci, cs) in dealt.iter().enumerate() {
        let cpath = format!("{}/chunk{}.ndjson", tmp, ci);
        write_ndjson(&cpath, cs);
        for p in 0..maxproc {
            if cs.iter().any(|c| geti_or(&c["inp"], "nproc", 1) > p) {
                jobs.push((ci, p, cpath.clone(), format!("{}/out{}_{}.ndjson", tmp, ci, p)));
            }
        }
    }
    let mut results: BTreeMap<i64, Vec<Value>> = BTreeMap::new();
    let mut crashed: Vec<(usize, i64, String)> = vec![];
    let child_timeout: u64 = std::env::var("C20_CHILD_TIMEOUT").ok().and_then(|s| s.parse().ok()).unwrap_or(900);
    let mut running: Vec<(std::process::Child, usize, std::time::Instant)> = vec![];
    let mut next = 0;
    let mut done = vec![false; jobs.len()];
    while next < jobs.len() || !running.is_empty() {
        while next < jobs.len() && running.len() < maxpar {
            let j = &jobs[next];
            let ch = std::process::Command::new(&exe)
                .arg("--child")
                .arg(&j.2)
                .arg(&j.3)
                .arg(j.1.to_string())
                .stdout(std::process::Stdio::null())
                .spawn()
                .expect("spawn child");
            running.push((ch, next, std::time::Instant::now()));
            next += 1;
        }
        let mut i = 0;
        let mut progressed = false;
        while i < running.len() {
            match running[i].0.try_wait().expect("wait") {
                Some(st) => {
                    let (_, ji, _) = running.remove(i);
                    done[ji] = true;
                    progressed = true;
                    if !st.success() {
                        crashed.push((jobs[ji].0, jobs[ji].1, format!("child exit {:?}", st.code())));
                    }
                }
                None => {
                    if running[i].2.elapsed().as_secs() > child_timeout {
                        // non-termination of the code under test is a tool error, never a verdict
                        for r in running.iter_mut() {
                            let _ = r.0.kill();
                        }
                        eprintln!("c20: child for chunk {} proc {} exceeded {} s", jobs[running[i].1].0, jobs[running[i].1].1, child_timeout);
                        std::process::exit(3);
                    }
                    i += 1
                }
            }
        }
        if !progressed {
            std::thread::sleep(std::time::Duration::from_millis(5));
        }
    }
    for j in &jobs {
        if crashed.iter().any(|c| c.0 == j.0 && c.1 == j.1) {
            continue;
        }
        for r in read_ndjson(&j.3) {
            let id = r["id"].as_i64().unwrap();
            results.entry(id).or_default().extend(r["ev"].as_array().unwrap().iter().cloned());
        }
    }
    // a crashed child (abort, not a panic) is data: every case of its chunk gets a crash event
    let mut traces = vec![];
    for (idx, c) in cases.iter().enumerate() {
        let id = c["id"].as_i64().unwrap();
        let mut ev = results.remove(&id).unwrap_or_default();
        for cr in &crashed {
            if idx % nchunks == cr.0 && geti_or(&c["inp"], "nproc", 1) > cr.1 {
                ev.push(json!({"ev": "panic", "proc": cr.1, "msg": format!("process crashed: {}", cr.2)}));
            }
        }
        traces.push(json!({"id": id, "kind": c["kind"], "inp": c["inp"], "ev": ev}));
    }
    write_ndjson(outp, &traces);
    let _ = std::fs::remove_dir_all(&tmp);
}

fn main() {
    let args: Vec<String> = std::env::args().skip(1).collect();
    if args.first().map(|s| s.as_str()) == Some("--child") {
        child_main(&args[1..]);
    } else {
        parent_main(&args);
    }
}

#[allow(dead_code)]
fn _unused(_: ArrayView1<f64>, _: ArrayView2<f64>, _: Axis) {}
