//! X07 harness, part 1: the `linfa-tsne` wrapper (TSneParams / TSneValidParams).
//! (Part 2 -- linfa-datasets generators and loaders -- lives in harness/x07aux/src/main.rs because
//! linfa-datasets is not a dependency of the shared harness crate.)
//!
//! kind "tsne": inp = {X: n x d integer matrix, d, e (embedding size), p2 (perplexity * 2), th2 (theta * 2),
//!                     mi (max_iter), pre (preliminary_iter, -1 = not set), seed, seed2, ft ("f64" | "f32")}
//! Every rng handed to the wrapper is a `CountRng`: a SmallRng whose clones share one draw counter, so the
//! number of values drawn *inside* `transform` (which works on a clone of the caller's rng) is observable.
//! Events (the harness never judges; digests / counts / flags only):
//!   check  : `check_ref()` of the parameter set alone                              {ok, err}
//!   tf     : `TSneParams::transform(Array2)`        {ok, err, rows, cols, finite, draws, dig, pdig0, pdig1}
//!            (pdig0/pdig1 = digest of the Debug rendering of the parameter set before / after the call)
//!   tf2    : the same call on the same parameter object again                      {ok, err, ..., dig}
//!   fresh  : the same call on a freshly built parameter set with the same seed      {...}
//!   valid  : `check()` then `TSneValidParams::transform(Array2)` (skipped when check fails: ok=false, err of check)
//!   ds     : `TSneParams::transform(DatasetBase)` with tagged targets and weights   {..., tgt, wts, fnames, tnames}
//!   dsv    : `TSneValidParams::transform(DatasetBase)`
//!   other  : array form with the rng seeded by seed2                               {...}
//!   flay   : array form on the same matrix held in column-major (Fortran) layout    {...}
//! A panic inside a call is recorded as ok = false, panicked = true, err = "panic: <msg>".
use linfa::dataset::DatasetBase;
use linfa::traits::Transformer;
use linfa::{Float, ParamGuard};
use linfa_tsne::{TSneError, TSneParams};
use ndarray::{Array1, Array2, ShapeBuilder};
use rand::rngs::SmallRng;
use rand::{Error, RngCore, SeedableRng};
use std::sync::atomic::{AtomicU64, Ordering};
use std::sync::Arc;
use vh::serde_json::{json, Map, Value};
use vh::*;

#[derive(Clone)]
struct CountRng {
    inner: SmallRng,
    count: Arc<AtomicU64>,
}
impl CountRng {
    fn new(seed: u64) -> Self {
        CountRng { inner: SmallRng::seed_from_u64(seed), count: Arc::new(AtomicU64::new(0)) }
    }
    fn draws(&self) -> u64 {
        self.count.load(Ordering::SeqCst)
    }
}
impl std::fmt::Debug for CountRng {
    fn fmt(&self, f: &mut std::fmt::Formatter<'_>) -> std::fmt::Result {
        write!(f, "CountRng({:?})", self.inner)
    }
}
impl PartialEq for CountRng {
    fn eq(&self, o: &Self) -> bool {
        self.inner == o.inner
    }
}
impl RngCore for CountRng {
    fn next_u32(&mut self) -> u32 {
        self.count.fetch_add(1, Ordering::SeqCst);
        self.inner.next_u32()
    }
    fn next_u64(&mut self) -> u64 {
        self.count.fetch_add(1, Ordering::SeqCst);
        self.inner.next_u64()
    }
    fn fill_bytes(&mut self, dest: &mut [u8]) {
        self.count.fetch_add(1, Ordering::SeqCst);
        self.inner.fill_bytes(dest)
    }
    fn try_fill_bytes(&mut self, dest: &mut [u8]) -> Result<(), Error> {
        self.count.fetch_add(1, Ordering::SeqCst);
        self.inner.try_fill_bytes(dest)
    }
}

fn err_name(e: &TSneError) -> String {
    // the variant name (Debug of a unit variant), without payloads
    let s = format!("{:?}", e);
    s.split(|c: char| !c.is_alphanumeric()).next().unwrap_or("").to_string()
}

fn dig_arr<F: Float>(a: &Array2<F>) -> Value {
    let v: Vec<f64> = a.iter().map(|x| x.to_f64().unwrap()).map(|x| if x == 0.0 { 0.0 } else { x }).collect();
    digest_f64(v.iter())
}

struct Out<F> {
    res: Result<Result<Array2<F>, TSneError>, String>,
    draws: u64,
}

fn outcome<F: Float>(name: &str, o: &Out<F>) -> Map<String, Value> {
    let mut m = Map::new();
    m.insert("ev".into(), json!(name));
    m.insert("draws".into(), json!(o.draws.min(1 << 30)));
    m.insert("panicked".into(), json!(o.res.is_err()));
    match &o.res {
        Ok(Ok(a)) => {
            m.insert("ok".into(), json!(true));
            m.insert("err".into(), json!(""));
            m.insert("rows".into(), json!(a.nrows()));
            m.insert("cols".into(), json!(a.ncols()));
            m.insert("finite".into(), json!(a.iter().all(|v| v.is_finite())));
            m.insert("dig".into(), dig_arr(a));
        }
        Ok(Err(e)) => {
            m.insert("ok".into(), json!(false));
            m.insert("err".into(), json!(err_name(e)));
            m.insert("rows".into(), json!(0));
            m.insert("cols".into(), json!(0));
            m.insert("finite".into(), json!(false));
            m.insert("dig".into(), json!([0, 0]));
        }
        Err(msg) => {
            m.insert("ok".into(), json!(false));
            m.insert("err".into(), json!(format!("panic: {}", msg)));
            m.insert("rows".into(), json!(0));
            m.insert("cols".into(), json!(0));
            m.insert("finite".into(), json!(false));
            m.insert("dig".into(), json!([0, 0]));
        }
    }
    m
}

fn run_tsne<F: Float>(inp: &Value) -> Vec<Value> {
    let rows = imat(&inp["X"]);
    let n = rows.len();
    let d = geti(inp, "d") as usize;
    let e = geti(inp, "e") as usize;
    let perp = F::cast(geti(inp, "p2") as f64 / 2.0);
    let theta = F::cast(geti(inp, "th2") as f64 / 2.0);
    let mi = geti(inp, "mi") as usize;
    let pre = geti(inp, "pre");
    let seed = geti(inp, "seed") as u64;
    let seed2 = geti(inp, "seed2") as u64;
    let x: Array2<F> = to_array2(&rows, d).mapv(F::cast);
    let tgt: Array1<usize> = (0..n).map(|r| 3 * r + 1).collect();
    let wts: Array1<f32> = (0..n).map(|r| r as f32 + 0.5).collect();

    let mk = |s: u64| -> (TSneParams<F, CountRng>, CountRng) {
        let rng = CountRng::new(s);
        let mut p = TSneParams::embedding_size_with_rng(e, rng.clone()).perplexity(perp).approx_threshold(theta).max_iter(mi);
        if pre >= 0 {
            p = p.preliminary_iter(pre as usize);
        }
        (p, rng)
    };
    let pdig = |p: &TSneParams<F, CountRng>| digest(format!("{:?}", p).as_bytes());
    let mut ev = Vec::new();

    // check_ref of the parameter set alone
    let (p, rng) = mk(seed);
    match p.check_ref() {
        Ok(_) => ev.push(json!({"ev": "check", "ok": true, "err": "", "draws": rng.draws()})),
        Err(er) => ev.push(json!({"ev": "check", "ok": false, "err": err_name(&er), "draws": rng.draws()})),
    }

    // array form, twice on the same object
    let p0 = pdig(&p);
    let before = rng.draws();
    let r = guarded(|| p.transform(x.clone()));
    let mut m = outcome("tf", &Out { res: r, draws: rng.draws() - before });
    m.insert("pdig0".into(), p0);
    m.insert("pdig1".into(), pdig(&p));
    ev.push(Value::Object(m));
    let before = rng.draws();
    let r = guarded(|| p.transform(x.clone()));
    ev.push(Value::Object(outcome("tf2", &Out { res: r, draws: rng.draws() - before })));

    // fresh parameter set, same seed
    let (q, qrng) = mk(seed);
    let r = guarded(|| q.transform(x.clone()));
    ev.push(Value::Object(outcome("fresh", &Out { res: r, draws: qrng.draws() })));

    // checked parameter set
    let (q, qrng) = mk(seed);
    match q.check() {
        Ok(v) => {
            let r = guarded(|| v.transform(x.clone()));
            ev.push(Value::Object(outcome("valid", &Out { res: r, draws: qrng.draws() })));
            let ds = DatasetBase::new(x.clone(), tgt.clone()).with_weights(wts.clone());
            let before = qrng.draws();
            let r = guarded(|| v.transform(ds));
            ev.push(ds_event("dsv", r, qrng.draws() - before));
        }
        Err(er) => {
            let o: Out<F> = Out { res: Ok(Err(er)), draws: qrng.draws() };
            ev.push(Value::Object(outcome("valid", &o)));
        }
    }

    // dataset form through the unchecked parameter set
    let (q, qrng) = mk(seed);
    let ds = DatasetBase::new(x.clone(), tgt.clone()).with_weights(wts.clone());
    let r = guarded(|| q.transform(ds));
    ev.push(ds_event("ds", r, qrng.draws()));

    // another seed
    let (q, qrng) = mk(seed2);
    let r = guarded(|| q.transform(x.clone()));
    ev.push(Value::Object(outcome("other", &Out { res: r, draws: qrng.draws() })));

    // the same matrix in column-major layout
    let (q, qrng) = mk(seed);
    let mut xf: Array2<F> = Array2::zeros((n, d).f());
    xf.assign(&x);
    let r = guarded(|| q.transform(xf));
    ev.push(Value::Object(outcome("flay", &Out { res: r, draws: qrng.draws() })));
    ev
}

fn ds_event<F: Float>(
    name: &str,
    r: Result<Result<DatasetBase<Array2<F>, Array1<usize>>, TSneError>, String>,
    draws: u64,
) -> Value {
    let (res, extra) = match r {
        Ok(Ok(ds)) => {
            let tg: Vec<i64> = ds.targets.iter().map(|v| *v as i64).collect();
            let wt: Vec<i64> = ds.weights.iter().map(|v| (*v * 2.0).round() as i64).collect();
            let extra = json!({"tgt": tg, "wts2": wt, "fnames": ds.feature_names().len(), "tnames": ds.target_names().len()});
            (Ok(Ok(ds.records)), extra)
        }
        Ok(Err(e)) => (Ok(Err(e)), json!({"tgt": [], "wts2": [], "fnames": 0, "tnames": 0})),
        Err(m) => (Err(m), json!({"tgt": [], "wts2": [], "fnames": 0, "tnames": 0})),
    };
    let mut m = outcome(name, &Out { res, draws });
    for (k, v) in extra.as_object().unwrap() {
        m.insert(k.clone(), v.clone());
    }
    Value::Object(m)
}

fn main() {
    run_cases(|c| {
        let inp = &c["inp"];
        match gets(c, "kind") {
            "tsne" => {
                if gets(inp, "ft") == "f32" {
                    run_tsne::<f32>(inp)
                } else {
                    run_tsne::<f64>(inp)
                }
            }
            k => vec![json!({"ev": "unknown_kind", "kind": k})],
        }
    });
}
