//! X03 harness: random projections (Gaussian / sparse) and diffusion maps of linfa-reduction.
//!
//! kind "rp"  fits a random projection with an explicit target dimension (or, kind "jl", with a precision
//!            eps = ep/eq) for every rng of the case and records
//!              fit     outcome of `fit` (ok / error variant with its two numbers)
//!              matrix  what the fitted projection does to the identity: transform(&I) (= the projection
//!                      matrix, which has no accessor), as fixed point (S = 10^6), with a digest of its
//!                      bit pattern and the distinct magnitudes of its non-zero entries
//!              tf      transform of the case's integer matrix X through every calling form
//!                      (array ref / owned / view, dataset owned / ref, row by row, in two halves)
//!              refit   digests of the matrix after fitting again (same params object, a freshly built
//!                      params with the same seed through `params_with_rng` and through `with_rng`,
//!                      another dataset of the same shape)
//! kind "dm"  builds a dense Gaussian kernel of the case's lattice points through linfa-kernel (or takes the
//!            case's symmetric matrix with dyadic entries directly, `direct`), runs DiffusionMap for every
//!            `steps` of the case and records kernel entries, eigenvalues and embedding as fixed point
//!            (S = 10^6).
//! A cell that is not finite or too large for the encoding is logged as 0 and counted in `bad`.
//! The harness never judges anything.
use linfa::dataset::{AsTargets, DatasetBase};
use linfa::traits::{Fit, Transformer};
use linfa::Float;
use linfa_kernel::{Kernel, KernelInner, KernelMethod, KernelType};
use linfa_reduction::random_projection::{GaussianRandomProjection, SparseRandomProjection};
use linfa_reduction::{DiffusionMap, ReductionError};
use ndarray::{s, Array1, Array2, ArrayBase, ArrayView2, Axis, Data, Ix2};
use rand::SeedableRng;
use rand_xoshiro::Xoshiro256Plus;
use vh::serde_json::{json, Map, Value};
use vh::*;

const S6: f64 = 1e6;

fn f<F: Float>(v: F) -> f64 {
    v.to_f64().unwrap()
}

/// one float -> (fixed point integer or 0, is-bad)
fn enc1(v: f64, s: f64) -> (i64, bool) {
    if !v.is_finite() {
        return (0, true);
    }
    let x = (v * s).round();
    if x.abs() >= 1073741824.0 {
        return (0, true);
    }
    (x as i64, false)
}

/// matrix -> (rows of ints, number of cells without an integer encoding)
fn encm<F: Float, D: Data<Elem = F>>(a: &ArrayBase<D, Ix2>, s: f64) -> (Value, i64) {
    let mut bad = 0;
    let mut rows = Vec::new();
    for row in a.outer_iter() {
        let mut o = Vec::new();
        for v in row.iter() {
            let (x, b) = enc1(f(*v), s);
            if b {
                bad += 1;
            }
            o.push(json!(x));
        }
        rows.push(Value::Array(o));
    }
    (Value::Array(rows), bad)
}
fn encv<F: Float>(a: &Array1<F>, s: f64) -> (Value, i64) {
    let mut bad = 0;
    let mut o = Vec::new();
    for v in a.iter() {
        let (x, b) = enc1(f(*v), s);
        if b {
            bad += 1;
        }
        o.push(json!(x));
    }
    (Value::Array(o), bad)
}
/// digest of the bit patterns (as f64 images; f32 -> f64 is exact and injective), row-major;
/// -0.0 and +0.0 are not distinguished (as in `vh::key64`)
fn dg<F: Float, D: Data<Elem = F>>(a: &ArrayBase<D, Ix2>) -> Value {
    let v: Vec<f64> = a.iter().map(|x| f(*x)).map(|x| if x == 0.0 { 0.0 } else { x }).collect();
    digest_f64(v.iter())
}

fn err_event(e: &ReductionError) -> (String, Vec<i64>) {
    match e {
        ReductionError::NotEnoughSamples => ("NotEnoughSamples".into(), vec![]),
        ReductionError::EmbeddingTooSmall(a) => ("EmbeddingTooSmall".into(), vec![*a as i64]),
        ReductionError::StepsZero => ("StepsZero".into(), vec![]),
        ReductionError::LinalgError(_) => ("LinalgError".into(), vec![]),
        ReductionError::LinfaError(_) => ("LinfaError".into(), vec![]),
        ReductionError::NdarrayRandError(_) => ("NdarrayRandError".into(), vec![]),
        ReductionError::InvalidPrecision => ("InvalidPrecision".into(), vec![]),
        ReductionError::NonPositiveEmbeddingSize => ("NonPositiveEmbeddingSize".into(), vec![]),
        ReductionError::DimensionIncrease(a, b) => ("DimensionIncrease".into(), vec![*a as i64, *b as i64]),
        _ => ("Other".into(), vec![]),
    }
}

/// dataset used for fitting: ns x nf, values depend on `salt` only (the projection must not depend on them)
fn fit_data<F: Float>(ns: usize, nf: usize, salt: usize) -> Array2<F> {
    Array2::from_shape_fn((ns, nf), |(i, j)| F::cast(((i * 7 + j * 3 + salt * 5) % 11) as f64 - 5.0))
}

fn int_matrix<F: Float>(rows: &[Vec<i64>], ncols: usize) -> Array2<F> {
    Array2::from_shape_fn((rows.len(), ncols), |(i, j)| F::cast(rows[i][j] as f64))
}

/// how the projection dimension is requested
enum Dim {
    Target(usize),
    Eps(f64),
}
type Ds<F> = DatasetBase<Array2<F>, Array1<usize>>;

/// The concrete projection types (the marker types `Gaussian` / `Sparse` and the trait over them are private
/// to linfa-reduction, so the four public instantiations are wrapped by a local trait).
trait Rp<F: Float>: Sized {
    /// seed < 0: the default rng of `params()`; path 0: `params_with_rng(rng)`; path 1: `params().with_rng(rng)`
    fn fit_it(dim: &Dim, seed: i64, path: u8, data: &Ds<F>) -> Result<Self, ReductionError>;
    fn tf_ref(&self, x: &Array2<F>) -> Array2<F>;
    fn tf_owned(&self, x: Array2<F>) -> Array2<F>;
    fn tf_view(&self, x: ArrayView2<F>) -> Array2<F>;
    fn tf_ds(&self, ds: Ds<F>) -> (Array2<F>, Vec<i64>);
    fn tf_dsref(&self, ds: &Ds<F>) -> (Array2<F>, Vec<i64>);
}

macro_rules! impl_rp {
    ($alias:ident, $F:ty) => {
        impl Rp<$F> for $alias<$F> {
            fn fit_it(dim: &Dim, seed: i64, path: u8, data: &Ds<$F>) -> Result<Self, ReductionError> {
                let rng = Xoshiro256Plus::seed_from_u64(seed.max(0) as u64);
                match (dim, seed < 0, path) {
                    (Dim::Target(td), true, _) => $alias::<$F>::params().target_dim(*td).fit(data),
                    (Dim::Target(td), false, 0) => $alias::<$F>::params_with_rng(rng).target_dim(*td).fit(data),
                    (Dim::Target(td), false, _) => $alias::<$F>::params().target_dim(*td).with_rng(rng).fit(data),
                    (Dim::Eps(eps), true, _) => $alias::<$F>::params().eps(*eps).fit(data),
                    (Dim::Eps(eps), false, 0) => $alias::<$F>::params_with_rng(rng).eps(*eps).fit(data),
                    (Dim::Eps(eps), false, _) => $alias::<$F>::params().with_rng(rng).eps(*eps).fit(data),
                }
            }
            fn tf_ref(&self, x: &Array2<$F>) -> Array2<$F> {
                self.transform(x)
            }
            fn tf_owned(&self, x: Array2<$F>) -> Array2<$F> {
                self.transform(x)
            }
            fn tf_view(&self, x: ArrayView2<$F>) -> Array2<$F> {
                self.transform(x)
            }
            fn tf_ds(&self, ds: Ds<$F>) -> (Array2<$F>, Vec<i64>) {
                let out = self.transform(ds);
                let tg = out.as_targets().iter().map(|t| *t as i64).collect();
                (out.records().to_owned(), tg)
            }
            fn tf_dsref(&self, ds: &Ds<$F>) -> (Array2<$F>, Vec<i64>) {
                let out = self.transform(ds);
                let tg = out.as_targets().iter().map(|t| *t as i64).collect();
                (out.records().to_owned(), tg)
            }
        }
    };
}
impl_rp!(GaussianRandomProjection, f64);
impl_rp!(GaussianRandomProjection, f32);
impl_rp!(SparseRandomProjection, f64);
impl_rp!(SparseRandomProjection, f32);

fn rp_case<F: Float, P: Rp<F>>(kind: &str, inp: &Value) -> Vec<Value> {
    let nf = geti(inp, "nf") as usize;
    let ns = geti(inp, "ns") as usize;
    let xs = imat(&inp["X"]);
    let x: Array2<F> = int_matrix(&xs, nf);
    let dim = if kind == "jl" {
        Dim::Eps(geti(inp, "ep") as f64 / geti(inp, "eq") as f64)
    } else {
        Dim::Target(geti(inp, "td") as usize)
    };
    let mut evs: Vec<Value> = Vec::new();
    let targets: Array1<usize> = Array1::from_shape_fn(ns, |i| 100 + i);
    let data = DatasetBase::new(fit_data::<F>(ns, nf, 0), targets.clone());
    let data2 = DatasetBase::new(fit_data::<F>(ns, nf, 1), targets);
    let eye: Array2<F> = Array2::eye(nf);
    for seed in ivec(&inp["seeds"]) {
        let proj = match P::fit_it(&dim, seed, 0, &data) {
            Err(e) => {
                let (name, args) = err_event(&e);
                evs.push(json!({"ev": "fit", "seed": seed, "ok": false, "err": name, "args": args}));
                continue;
            }
            Ok(p) => p,
        };
        evs.push(json!({"ev": "fit", "seed": seed, "ok": true, "err": "", "args": []}));
        // the projection matrix = image of the identity
        let r = proj.tf_ref(&eye);
        let (rm, bad) = encm(&r, S6);
        let mut mags: Vec<u64> = r.iter().map(|v| f(*v).abs()).filter(|v| *v != 0.0).map(|v| v.to_bits()).collect();
        mags.sort();
        mags.dedup();
        let mags: Vec<Value> = mags.iter().take(4).map(|b| json!(enc1(f64::from_bits(*b), S6).0)).collect();
        let full = r.nrows() * r.ncols() <= 400;
        evs.push(json!({"ev": "matrix", "seed": seed, "shape": [r.nrows(), r.ncols()], "full": full,
                        "R": if full { rm } else { json!([]) }, "bad": bad, "dg": dg(&r), "mags": mags}));
        // the case's matrix through every calling form
        let mut forms: Vec<(&str, Array2<F>, Vec<i64>)> = Vec::new();
        forms.push(("ref", proj.tf_ref(&x), vec![]));
        forms.push(("owned", proj.tf_owned(x.clone()), vec![]));
        forms.push(("view", proj.tf_view(x.view()), vec![]));
        let xt: Array1<usize> = Array1::from_shape_fn(x.nrows(), |i| 500 + i);
        let ds = DatasetBase::new(x.clone(), xt);
        let (y, tg) = proj.tf_dsref(&ds);
        forms.push(("dsref", y, tg));
        let (y, tg) = proj.tf_ds(ds);
        forms.push(("ds", y, tg));
        // row by row
        let mut rows = Array2::<F>::zeros((x.nrows(), r.ncols()));
        let mut shape_ok = true;
        for i in 0..x.nrows() {
            let o = proj.tf_view(x.slice(s![i..i + 1, ..]));
            if o.nrows() == 1 && o.ncols() == r.ncols() {
                rows.row_mut(i).assign(&o.row(0));
            } else {
                shape_ok = false;
            }
        }
        if shape_ok {
            forms.push(("rows", rows, vec![]));
        }
        // in two halves
        let h = x.nrows() / 2;
        let a = proj.tf_view(x.slice(s![..h, ..]));
        let b = proj.tf_view(x.slice(s![h.., ..]));
        if a.ncols() == b.ncols() {
            forms.push(("halves", ndarray::concatenate(Axis(0), &[a.view(), b.view()]).unwrap(), vec![]));
        }
        // column-major storage of the same matrix
        let xt2 = x.t().to_owned();
        forms.push(("colmajor", proj.tf_view(xt2.t()), vec![]));
        for (form, y, tg) in forms {
            let (ym, bad) = encm(&y, S6);
            evs.push(json!({"ev": "tf", "seed": seed, "form": form, "shape": [y.nrows(), y.ncols()],
                            "Y": ym, "bad": bad, "dg": dg(&y), "tg": tg}));
        }
        // fitting again
        let mut re: Vec<Value> = Vec::new();
        for (how, path, d) in [("again", 0u8, &data), ("with_rng", 1u8, &data), ("other_data", 0u8, &data2)] {
            match P::fit_it(&dim, seed, path, d) {
                Ok(p) => re.push(json!({"how": how, "ok": true, "dg": dg(&p.tf_ref(&eye))})),
                Err(_) => re.push(json!({"how": how, "ok": false, "dg": [0, 0]})),
            }
        }
        evs.push(json!({"ev": "refit", "seed": seed, "runs": re}));
    }
    evs
}

fn rp(kind: &str, inp: &Value) -> Vec<Value> {
    match (gets(inp, "meth"), gets(inp, "ft")) {
        ("gauss", "f64") => rp_case::<f64, GaussianRandomProjection<f64>>(kind, inp),
        ("gauss", "f32") => rp_case::<f32, GaussianRandomProjection<f32>>(kind, inp),
        ("sparse", "f64") => rp_case::<f64, SparseRandomProjection<f64>>(kind, inp),
        ("sparse", "f32") => rp_case::<f32, SparseRandomProjection<f32>>(kind, inp),
        (m, t) => panic!("unknown projection {} {}", m, t),
    }
}

// ---------------------------------------------------------------------------------------------
// diffusion maps

fn dm(inp: &Value) -> Vec<Value> {
    let mut evs: Vec<Value> = Vec::new();
    let es = geti(inp, "es") as usize;
    let kernel: Kernel<f64> = if getb(inp, "direct") {
        // symmetric matrix with dyadic entries kn[i][j] / kd, assembled directly
        let kn = imat(&inp["kn"]);
        let kd = geti(inp, "kd") as f64;
        let n = kn.len();
        let m = Array2::from_shape_fn((n, n), |(i, j)| kn[i][j] as f64 / kd);
        Kernel { inner: KernelInner::Dense(m), method: KernelMethod::Gaussian(1.0) }
    } else {
        let pts = imat(&inp["pts"]);
        let d = if pts.is_empty() { 0 } else { pts[0].len() };
        let x: Array2<f64> = int_matrix(&pts, d);
        let eps = geti(inp, "en") as f64 / geti(inp, "ed") as f64;
        Kernel::params().kind(KernelType::Dense).method(KernelMethod::Gaussian(eps)).transform(&x)
    };
    let n = kernel.size();
    let kmat = kernel.dot(&Array2::eye(n).view());
    let (km, bad) = encm(&kmat, S6);
    evs.push(json!({"ev": "kernel", "n": n, "K": km, "bad": bad}));
    for st in ivec(&inp["steps"]) {
        let kern = &kernel;
        let res = guarded(|| DiffusionMap::<f64>::params(es).steps(st as usize).transform(kern));
        let mut ev = Map::new();
        ev.insert("ev".into(), json!("dm"));
        ev.insert("steps".into(), json!(st));
        let (mut resn, mut err, mut args) = ("ok", String::new(), Vec::<i64>::new());
        let mut e = json!([]);
        let mut lam = json!([]);
        let mut shape = vec![0usize, 0usize];
        let mut nlam = 0usize;
        let mut bad = 0i64;
        match res {
            Err(_) => resn = "panic",
            Ok(Err(er)) => {
                resn = "err";
                let (a, b) = err_event(&er);
                err = a;
                args = b;
            }
            Ok(Ok(map)) => {
                let (em, b1) = encm(map.embedding(), S6);
                let (lv, b2) = encv(map.eigvals(), S6);
                e = em;
                lam = lv;
                bad = b1 + b2;
                shape = vec![map.embedding().nrows(), map.embedding().ncols()];
                nlam = map.eigvals().len();
            }
        }
        ev.insert("res".into(), json!(resn));
        ev.insert("err".into(), json!(err));
        ev.insert("args".into(), json!(args));
        ev.insert("shape".into(), json!(shape));
        ev.insert("nlam".into(), json!(nlam));
        ev.insert("E".into(), e);
        ev.insert("lam".into(), lam);
        ev.insert("bad".into(), json!(bad));
        evs.push(Value::Object(ev));
    }
    evs
}

fn main() {
    run_cases(|case| {
        let inp = &case["inp"];
        match gets(case, "kind") {
            "rp" => rp("rp", inp),
            "jl" => rp("jl", inp),
            "dm" => dm(inp),
            other => panic!("unknown kind {}", other),
        }
    });
}
