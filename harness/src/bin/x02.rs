//! X02 harness: partial least squares (linfa-pls: PlsRegression, PlsCanonical, PlsCca, PlsSvd) on small
//! integer matrices. The harness never judges: it builds the dataset exactly as the case says, calls the
//! public API (fit, weights/loadings/rotations/coefficients, transform, inverse_transform, predict) and logs
//! what comes back as fixed-point integers (scale 10^4). Private centring / scaling vectors are observed
//! through the public `Serialize` impl (serde JSON of the model).
//!
//! kind "fit":   inp = {variant: reg|can|cca|svd, algo: nipals|svd, scale: bool, k, tol: tight|default|zero|neg|nan|inf|ninf,
//!                      maxit: int, X: n x p ints, Y: n x q ints, Z: m x p ints, ZY: m x q ints, p, q}
//! kind "equiv": inp = {scale, X, Y, p, q}: PlsRegression, PlsCanonical, PlsSvd with one component on the same data
use linfa::dataset::DatasetBase;
use linfa::traits::{Fit, Predict, Transformer};
use linfa::ParamGuard;
use linfa_pls::{Algorithm, PlsCanonical, PlsCca, PlsError, PlsRegression, PlsSvd};
use ndarray::{Array2, ArrayView2};
use vh::serde_json::{json, Value};
use vh::*;

const S: f64 = 10000.0;
const TIGHT: f64 = 1e-24;

/// `fin`: every number is finite and inside the grid (|v| < 2^30 / S); `nan`: some number is NaN or infinite.
/// A number outside the grid is logged as 0 with `fin = false`.
struct Flags {
    fin: bool,
    nan: bool,
}
impl Flags {
    fn new() -> Self {
        Flags { fin: true, nan: false }
    }
    fn stamp(&self, e: &mut Value) {
        e["fin"] = json!(self.fin);
        e["nan"] = json!(self.nan);
    }
}

/// fixed-point matrix (rows)
fn mat(a: &ArrayView2<f64>, fin: &mut Flags) -> Value {
    Value::Array(
        a.outer_iter()
            .map(|r| {
                Value::Array(
                    r.iter()
                        .map(|v| {
                            let x = (v * S).round();
                            if !v.is_finite() || x.abs() >= 1073741824.0 {
                                fin.fin = false;
                                fin.nan |= !v.is_finite();
                                json!(0)
                            } else {
                                json!(x as i64)
                            }
                        })
                        .collect(),
                )
            })
            .collect(),
    )
}
fn shape(a: &ArrayView2<f64>) -> Value {
    json!([a.nrows(), a.ncols()])
}

fn err_tag(e: &PlsError) -> (&'static str, i64, i64) {
    match e {
        PlsError::NotEnoughSamplesError(n) => ("samples", *n as i64, 0),
        PlsError::BadComponentNumberError { upperbound, actual } => ("ncomp", *upperbound as i64, *actual as i64),
        PlsError::InvalidTolerance(_) => ("tol", 0, 0),
        PlsError::ZeroMaxIter => ("maxiter", 0, 0),
        PlsError::PowerMethodNotConvergedError(m) => ("notconv", *m as i64, 0),
        PlsError::PowerMethodConstantResidualError() => ("constres", 0, 0),
        PlsError::LinalgError(_) => ("linalg", 0, 0),
        PlsError::LinfaError(_) => ("linfa", 0, 0),
        PlsError::MinMaxError(_) => ("minmax", 0, 0),
    }
}
fn fit_event(r: Result<(), &PlsError>) -> Value {
    match r {
        Ok(()) => json!({"ev": "fit", "ok": true, "err": "none", "a": 0, "b": 0}),
        Err(e) => {
            let (t, a, b) = err_tag(e);
            json!({"ev": "fit", "ok": false, "err": t, "a": a, "b": b})
        }
    }
}
fn check_event(r: Result<(), &PlsError>) -> Value {
    match r {
        Ok(()) => json!({"ev": "check", "ok": true, "err": "none"}),
        Err(e) => json!({"ev": "check", "ok": false, "err": err_tag(e).0}),
    }
}

fn tol_value(t: &str) -> Option<f64> {
    match t {
        "tight" => Some(TIGHT),
        "default" => None,
        "zero" => Some(0.0),
        "neg" => Some(-1e-9),
        "nan" => Some(f64::NAN),
        "inf" => Some(f64::INFINITY),
        "ninf" => Some(f64::NEG_INFINITY),
        _ => panic!("harness: bad tol class"),
    }
}

/// a serialised 1-D ndarray field of the model ({"v":1,"dim":[n],"data":[..]})
fn serde_vec(model: &Value, field: &str, fin: &mut Flags) -> Value {
    let d = model.get(field).and_then(|a| a.get("data")).and_then(|d| d.as_array());
    match d {
        Some(xs) => Value::Array(
            xs.iter()
                .map(|x| {
                    let v = x.as_f64().unwrap_or(f64::NAN);
                    let y = (v * S).round();
                    if !v.is_finite() || y.abs() >= 1073741824.0 {
                        fin.fin = false;
                        fin.nan |= !v.is_finite();
                        json!(0)
                    } else {
                        json!(y as i64)
                    }
                })
                .collect(),
        ),
        None => {
            fin.fin = false;
            fin.nan = true;
            json!([])
        }
    }
}

macro_rules! run_generic {
    ($T:ident, $inp:expr, $ds:expr, $zds:expr, $ev:expr) => {{
        let inp = $inp;
        let k = geti(inp, "k") as usize;
        let mut params = $T::<f64>::params(k).scale(getb(inp, "scale"));
        params = params.algorithm(if gets(inp, "algo") == "svd" { Algorithm::Svd } else { Algorithm::Nipals });
        if let Some(t) = tol_value(gets(inp, "tol")) {
            params = params.tolerance(t);
        }
        let maxit = geti(inp, "maxit");
        if maxit >= 0 {
            params = params.max_iterations(maxit as usize);
        }
        {
            let r = params.check_ref().map(|_| ());
            $ev.push(check_event(r.as_ref().map(|_| ())));
        }
        let ds: &DatasetBase<Array2<f64>, Array2<f64>> = $ds;
        match params.fit(ds) {
            Err(e) => $ev.push(fit_event(Err(&e))),
            Ok(m) => {
                $ev.push(fit_event(Ok(())));
                let mut fin = Flags::new();
                let (xw, yw) = m.weights();
                let (xl, yl) = m.loadings();
                let (xr, yr) = m.rotations();
                let co = m.coefficients();
                let sj = vh::serde_json::to_value(&m).unwrap_or(Value::Null);
                let e = json!({"ev": "model",
                    "sxw": shape(&xw.view()), "syw": shape(&yw.view()), "sxl": shape(&xl.view()), "syl": shape(&yl.view()),
                    "sxr": shape(&xr.view()), "syr": shape(&yr.view()), "sco": shape(&co.view()),
                    "xw": mat(&xw.view(), &mut fin), "yw": mat(&yw.view(), &mut fin),
                    "xl": mat(&xl.view(), &mut fin), "yl": mat(&yl.view(), &mut fin),
                    "xr": mat(&xr.view(), &mut fin), "yr": mat(&yr.view(), &mut fin),
                    "co": mat(&co.view(), &mut fin),
                    "xmean": serde_vec(&sj, "x_mean", &mut fin), "xstd": serde_vec(&sj, "x_std", &mut fin),
                    "ymean": serde_vec(&sj, "y_mean", &mut fin), "ystd": serde_vec(&sj, "y_std", &mut fin)});
                let mut e = e;
                fin.stamp(&mut e);
                $ev.push(e);
                // transform of the training data, and back
                let tr = m.transform(DatasetBase::new(ds.records().view(), ds.targets().view()));
                let mut fin = Flags::new();
                let mut e = json!({"ev": "transform", "st": shape(&tr.records().view()), "su": shape(&tr.targets().view()),
                    "t": mat(&tr.records().view(), &mut fin), "u": mat(&tr.targets().view(), &mut fin)});
                fin.stamp(&mut e);
                $ev.push(e);
                let back = m.inverse_transform(DatasetBase::new(tr.records().view(), tr.targets().view()));
                let mut fin = Flags::new();
                let mut e = json!({"ev": "inverse", "sx": shape(&back.records().view()), "sy": shape(&back.targets().view()),
                    "x": mat(&back.records().view(), &mut fin), "y": mat(&back.targets().view(), &mut fin)});
                fin.stamp(&mut e);
                $ev.push(e);
                let pr: Array2<f64> = m.predict(ds.records());
                let mut fin = Flags::new();
                let mut e = json!({"ev": "predict", "sy": shape(&pr.view()), "y": mat(&pr.view(), &mut fin)});
                fin.stamp(&mut e);
                $ev.push(e);
                // unseen rows
                let zds: &DatasetBase<Array2<f64>, Array2<f64>> = $zds;
                let tz = m.transform(DatasetBase::new(zds.records().view(), zds.targets().view()));
                let pz: Array2<f64> = m.predict(zds.records());
                let mut fin = Flags::new();
                let mut e = json!({"ev": "unseen", "st": shape(&tz.records().view()), "su": shape(&tz.targets().view()), "sy": shape(&pz.view()),
                    "t": mat(&tz.records().view(), &mut fin), "u": mat(&tz.targets().view(), &mut fin), "y": mat(&pz.view(), &mut fin)});
                fin.stamp(&mut e);
                $ev.push(e);
            }
        }
    }};
}

fn dataset(inp: &Value, xk: &str, yk: &str) -> DatasetBase<Array2<f64>, Array2<f64>> {
    let p = geti(inp, "p") as usize;
    let q = geti(inp, "q") as usize;
    let x = to_array2(&imat(&inp[xk]), p);
    let y = to_array2(&imat(&inp[yk]), q);
    DatasetBase::new(x, y)
}

fn run_svd(inp: &Value, ds: &DatasetBase<Array2<f64>, Array2<f64>>, zds: &DatasetBase<Array2<f64>, Array2<f64>>, ev: &mut Vec<Value>) {
    let k = geti(inp, "k") as usize;
    let params = PlsSvd::<f64>::params(k).scale(getb(inp, "scale"));
    ev.push(json!({"ev": "check", "ok": true, "err": "none"})); // PlsSvdParams has no guard
    let r: Result<PlsSvd<f64>, PlsError> = params.fit(ds);
    match r {
        Err(e) => ev.push(fit_event(Err(&e))),
        Ok(m) => {
            ev.push(fit_event(Ok(())));
            let (xw, yw) = m.weights();
            let mut fin = Flags::new();
            let mut e = json!({"ev": "model", "sxw": shape(&xw.view()), "syw": shape(&yw.view()),
                "xw": mat(&xw.view(), &mut fin), "yw": mat(&yw.view(), &mut fin)});
            fin.stamp(&mut e);
            ev.push(e);
            let tr = m.transform(DatasetBase::new(ds.records().view(), ds.targets().view()));
            let mut fin = Flags::new();
            let mut e = json!({"ev": "transform", "st": shape(&tr.records().view()), "su": shape(&tr.targets().view()),
                "t": mat(&tr.records().view(), &mut fin), "u": mat(&tr.targets().view(), &mut fin)});
            fin.stamp(&mut e);
            ev.push(e);
            let tz = m.transform(DatasetBase::new(zds.records().view(), zds.targets().view()));
            let mut fin = Flags::new();
            let mut e = json!({"ev": "unseen", "st": shape(&tz.records().view()), "su": shape(&tz.targets().view()), "sy": json!([0, 0]),
                "t": mat(&tz.records().view(), &mut fin), "u": mat(&tz.targets().view(), &mut fin), "y": json!([])});
            fin.stamp(&mut e);
            ev.push(e);
        }
    }
}

fn run_equiv(inp: &Value, ev: &mut Vec<Value>) {
    let ds = dataset(inp, "X", "Y");
    let scale = getb(inp, "scale");
    macro_rules! one {
        ($name:expr, $fit:expr) => {{
            match $fit {
                Err(e) => {
                    let e: PlsError = e;
                    ev.push(json!({"ev": "eq", "variant": $name, "ok": false, "err": err_tag(&e).0, "fin": true, "nan": false, "t": [], "w": []}));
                }
                Ok(m) => {
                    let tr = m.transform(DatasetBase::new(ds.records().view(), ds.targets().view()));
                    let mut fin = Flags::new();
                    let t = mat(&tr.records().view(), &mut fin);
                    let w = mat(&m.weights().0.view(), &mut fin);
                    ev.push(json!({"ev": "eq", "variant": $name, "ok": true, "err": "none", "fin": fin.fin, "nan": fin.nan, "t": t, "w": w}));
                }
            }
        }};
    }
    one!("reg", PlsRegression::<f64>::params(1).scale(scale).tolerance(TIGHT).max_iterations(5000).fit(&ds));
    one!("can", PlsCanonical::<f64>::params(1).scale(scale).tolerance(TIGHT).max_iterations(5000).fit(&ds));
    one!("svd", {
        let r: Result<PlsSvd<f64>, PlsError> = PlsSvd::<f64>::params(1).scale(scale).fit(&ds);
        r
    });
}

fn run_one(case: &Value) -> Vec<Value> {
    let kind = gets(case, "kind");
    let inp = &case["inp"];
    let mut ev: Vec<Value> = Vec::new();
    match kind {
        "fit" => {
            let ds = dataset(inp, "X", "Y");
            let zds = dataset(inp, "Z", "ZY");
            match gets(inp, "variant") {
                "reg" => run_generic!(PlsRegression, inp, &ds, &zds, ev),
                "can" => run_generic!(PlsCanonical, inp, &ds, &zds, ev),
                "cca" => run_generic!(PlsCca, inp, &ds, &zds, ev),
                "svd" => run_svd(inp, &ds, &zds, &mut ev),
                _ => panic!("harness: bad variant"),
            }
        }
        "equiv" => run_equiv(inp, &mut ev),
        _ => panic!("harness: bad kind"),
    }
    ev.push(json!({"ev": "end"}));
    ev
}

/// A call that never returns cannot be caught by `catch_unwind`: every case runs on its own thread and is
/// given HANG_SECS (env X02_HANG_SECS, default 20) to finish; after that the case is recorded as the single
/// event `hang` (no specification action explains it) and the thread is abandoned (it dies with the process).
fn main() {
    let secs: u64 = std::env::var("X02_HANG_SECS").ok().and_then(|s| s.parse().ok()).unwrap_or(20);
    run_cases(move |case| {
        let (tx, rx) = std::sync::mpsc::channel();
        let c = case.clone();
        std::thread::Builder::new()
            .stack_size(16 << 20)
            .spawn(move || {
                let r = guarded(|| run_one(&c));
                let _ = tx.send(r);
            })
            .expect("harness: spawn");
        match rx.recv_timeout(std::time::Duration::from_secs(secs)) {
            Ok(Ok(ev)) => ev,
            Ok(Err(msg)) => vec![panic_event("case", &msg), json!({"ev": "end"})],
            Err(_) => vec![json!({"ev": "hang", "secs": secs}), json!({"ev": "end"})],
        }
    });
}
