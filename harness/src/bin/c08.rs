//! C08 harness: DBSCAN and OPTICS on lattice inputs, for the three neighbour indices.
//!
//! case.inp = { dim, pts: [[int; dim]; n], minpts, eps: {n, d}  (tolerance = n/d, d a power of two; d = 0: infinite),
//!              metric: "l1"|"l2"|"linf", ft: "f32"|"f64", leaf: 0 (index default) | leaf size,
//!              dsindex: index used for the DatasetBase calling form }
//! events, in this order, for index in [linear, kdtree, balltree]:
//!   {"ev":"dbscan","index":..,"form":"array","labels":[-1|label ...]}
//!   {"ev":"optics","index":..,"form":"array","order":[{"idx":i,"core":OBS,"reach":OBS} ...]}
//! then, on index `dsindex`: form "strided" (both algorithms on a view with row stride 2 over a buffer whose
//! other rows are junk), form "default" (metric l2 only: `Dbscan::params` / `Optics::params` + `nn_algo`),
//! and {"ev":"dbscan","index":dsindex,"form":"dataset","labels":[..],"rec":[[..]..]}
//! OBS = {"def":bool,"i":int,"exact":bool}: an Option<F> distance; the integer is the distance itself for
//! L1/Linf and the *squared* distance for L2 (both are integers on lattice inputs), `exact` says that the
//! float really was that integer (resp. its square root) up to rounding of the float type.
//! The harness never judges: Trace_Density.tla evaluates the relations.
use linfa::traits::Transformer;
use linfa::{DatasetBase, Float};
use linfa_clustering::{Dbscan, Optics};
use linfa_nn::distance::{Distance, L1Dist, L2Dist, LInfDist};
use linfa_nn::{BuildError, CommonNearestNeighbour, NearestNeighbour, NearestNeighbourIndex};
type NearestNeighbourBox<'a, F> = Box<dyn 'a + Send + Sync + NearestNeighbourIndex<F>>;
use ndarray::{Array1, Array2, ArrayBase, Data, Ix2};
use vh::serde_json::{json, Value};
use vh::*;

/// A neighbour index with an explicit leaf size: DBSCAN/OPTICS only ever call `from_batch`, which uses the
/// default leaf size 16, so on small inputs the trees would degenerate to one leaf. The wrapper is an
/// ordinary user implementation of the public `NearestNeighbour` trait that forwards to the real index.
#[derive(Debug, Clone, PartialEq)]
struct Leafy(CommonNearestNeighbour, usize);

impl NearestNeighbour for Leafy {
    fn from_batch_with_leaf_size<'a, F: Float, DT: Data<Elem = F>, D: 'a + Distance<F>>(
        &self,
        batch: &'a ArrayBase<DT, Ix2>,
        leaf_size: usize,
        dist_fn: D,
    ) -> Result<NearestNeighbourBox<'a, F>, BuildError> {
        self.0.from_batch_with_leaf_size(batch, leaf_size, dist_fn)
    }
    fn from_batch<'a, F: Float, DT: Data<Elem = F>, D: 'a + Distance<F>>(
        &self,
        batch: &'a ArrayBase<DT, Ix2>,
        dist_fn: D,
    ) -> Result<NearestNeighbourBox<'a, F>, BuildError> {
        if self.1 == 0 {
            self.0.from_batch(batch, dist_fn)
        } else {
            self.0.from_batch_with_leaf_size(batch, self.1, dist_fn)
        }
    }
}

fn index_of(name: &str) -> CommonNearestNeighbour {
    match name {
        "linear" => CommonNearestNeighbour::LinearSearch,
        "kdtree" => CommonNearestNeighbour::KdTree,
        "balltree" => CommonNearestNeighbour::BallTree,
        _ => panic!("unknown index {}", name),
    }
}

/// Option<F> distance -> {"def","i","exact"}; `square` for L2 (reduced form = squared distance)
fn obs<F: Float>(v: &Option<F>, square: bool, single: bool) -> Value {
    match v {
        None => json!({"def": false, "i": 0, "exact": true}),
        Some(x) => {
            let x: f64 = x.to_f64().unwrap_or(f64::NAN);
            let y = if square { x * x } else { x };
            if !y.is_finite() || y.abs() >= 1073741824.0 {
                return json!({"def": true, "i": 0, "exact": false});
            }
            let r = y.round();
            // rounding allowance of sqrt followed by squaring in the float type of the run
            let tol = if single { 2e-6 } else { 1e-9 };
            json!({"def": true, "i": r as i64, "exact": (y - r).abs() <= tol * y.abs().max(1.0)})
        }
    }
}

fn labels_json(l: &Array1<Option<usize>>) -> Value {
    Value::Array(l.iter().map(|x| json!(x.map(|v| v as i64).unwrap_or(-1))).collect())
}

fn order_json<F: Float>(an: &linfa_clustering::OpticsAnalysis<F>, square: bool, single: bool) -> Value {
    Value::Array(
        an.iter()
            .map(|s| {
                json!({"idx": s.index() as i64,
                       "core": obs(s.core_distance(), square, single),
                       "reach": obs(s.reachability_distance(), square, single)})
            })
            .collect(),
    )
}

/// The default configurations `Dbscan::params(m)` / `Optics::params(m)` (Euclidean distance, enum index set
/// through the builder's `nn_algo`), only meaningful for metric = "l2".
fn run_default<F: Float>(inp: &Value, data: &Array2<F>, eps: F, ev: &mut Vec<Value>) {
    let mp = geti(inp, "minpts") as usize;
    let single = gets(inp, "ft") == "f32";
    let name = gets(inp, "dsindex");
    match guarded(|| Dbscan::params::<F>(mp).tolerance(eps).nn_algo(index_of(name)).transform(data)) {
        Ok(Ok(lab)) => ev.push(json!({"ev": "dbscan", "index": name, "form": "default", "labels": labels_json(&lab)})),
        Ok(Err(e)) => ev.push(json!({"ev": "error", "at": "dbscan_default", "index": name, "msg": format!("{}", e)})),
        Err(msg) => ev.push(panic_event(&format!("dbscan_default/{}", name), &msg)),
    }
    match guarded(|| Optics::params::<F>(mp).tolerance(eps).nn_algo(index_of(name)).transform(data.view())) {
        Ok(Ok(an)) => ev.push(json!({"ev": "optics", "index": name, "form": "default", "order": order_json(&an, true, single)})),
        Ok(Err(e)) => ev.push(json!({"ev": "error", "at": "optics_default", "index": name, "msg": format!("{}", e)})),
        Err(msg) => ev.push(panic_event(&format!("optics_default/{}", name), &msg)),
    }
}

fn run<F: Float, D: Distance<F>>(inp: &Value, dist: D) -> Vec<Value> {
    let dim = geti(inp, "dim") as usize;
    let pts = imat(&inp["pts"]);
    let n = pts.len();
    let mp = geti(inp, "minpts") as usize;
    let eps = if geti(&inp["eps"], "d") == 0 {
        F::infinity() // the default tolerance of Optics::params
    } else {
        F::cast(geti(&inp["eps"], "n") as f64) / F::cast(geti(&inp["eps"], "d") as f64)
    };
    let metric = gets(inp, "metric");
    let single = gets(inp, "ft") == "f32";
    let leaf = geti(inp, "leaf") as usize;
    let square = metric == "l2";
    let data: Array2<F> = Array2::from_shape_fn((n, dim), |(r, c)| F::cast(pts[r][c] as f64));

    let mut ev = Vec::new();
    for name in ["linear", "kdtree", "balltree"] {
        let nn = Leafy(index_of(name), leaf);
        // DBSCAN, array calling form
        match guarded(|| Dbscan::params_with::<F, _, _>(mp, dist.clone(), nn.clone()).tolerance(eps).transform(&data)) {
            Ok(Ok(lab)) => ev.push(json!({"ev": "dbscan", "index": name, "form": "array", "labels": labels_json(&lab)})),
            Ok(Err(e)) => ev.push(json!({"ev": "error", "at": "dbscan", "index": name, "msg": format!("{}", e)})),
            Err(msg) => ev.push(panic_event(&format!("dbscan/{}", name), &msg)),
        }
        // OPTICS
        match guarded(|| Optics::params_with::<F, _, _>(mp, dist.clone(), nn.clone()).tolerance(eps).transform(data.view())) {
            Ok(Ok(an)) => ev.push(json!({"ev": "optics", "index": name, "form": "array", "order": order_json(&an, square, single)})),
            Ok(Err(e)) => ev.push(json!({"ev": "error", "at": "optics", "index": name, "msg": format!("{}", e)})),
            Err(msg) => ev.push(panic_event(&format!("optics/{}", name), &msg)),
        }
    }
    let name = gets(inp, "dsindex");
    // Strided input: the points are every other row of a buffer whose odd rows hold far-away junk.
    // DBSCAN takes any `&ArrayBase<impl Data, Ix2>`, OPTICS an `ArrayView2`; only the rows of the view count.
    {
        let nn = Leafy(index_of(name), leaf);
        let buf: Array2<F> = Array2::from_shape_fn((2 * n, dim), |(r, c)| {
            if r % 2 == 0 {
                F::cast(pts[r / 2][c] as f64)
            } else {
                F::cast(1000.0 + r as f64)
            }
        });
        let view = buf.slice(ndarray::s![..;2, ..]);
        match guarded(|| Dbscan::params_with::<F, _, _>(mp, dist.clone(), nn.clone()).tolerance(eps).transform(&view)) {
            Ok(Ok(lab)) => ev.push(json!({"ev": "dbscan", "index": name, "form": "strided", "labels": labels_json(&lab)})),
            Ok(Err(e)) => ev.push(json!({"ev": "error", "at": "dbscan_strided", "index": name, "msg": format!("{}", e)})),
            Err(msg) => ev.push(panic_event(&format!("dbscan_strided/{}", name), &msg)),
        }
        match guarded(|| Optics::params_with::<F, _, _>(mp, dist.clone(), nn.clone()).tolerance(eps).transform(view)) {
            Ok(Ok(an)) => ev.push(json!({"ev": "optics", "index": name, "form": "strided", "order": order_json(&an, square, single)})),
            Ok(Err(e)) => ev.push(json!({"ev": "error", "at": "optics_strided", "index": name, "msg": format!("{}", e)})),
            Err(msg) => ev.push(panic_event(&format!("optics_strided/{}", name), &msg)),
        }
    }
    if metric == "l2" {
        run_default::<F>(inp, &data, eps, &mut ev);
    }
    // DBSCAN, dataset calling form: returns the dataset with the labels as targets
    let nn = Leafy(index_of(name), leaf);
    let ds = DatasetBase::from(data.clone());
    match guarded(|| Dbscan::params_with::<F, _, _>(mp, dist.clone(), nn.clone()).tolerance(eps).transform(ds)) {
        Ok(Ok(out)) => {
            let rec: Vec<Value> = out
                .records()
                .outer_iter()
                .map(|r| Value::Array(r.iter().map(|x| json!(x.to_f64().unwrap_or(f64::NAN).round() as i64)).collect()))
                .collect();
            ev.push(json!({"ev": "dbscan", "index": name, "form": "dataset", "labels": labels_json(out.targets()), "rec": rec}));
        }
        Ok(Err(e)) => ev.push(json!({"ev": "error", "at": "dbscan_ds", "index": name, "msg": format!("{}", e)})),
        Err(msg) => ev.push(panic_event(&format!("dbscan_ds/{}", name), &msg)),
    }
    ev
}

fn run_ft<F: Float>(inp: &Value) -> Vec<Value> {
    match gets(inp, "metric") {
        "l1" => run::<F, _>(inp, L1Dist),
        "l2" => run::<F, _>(inp, L2Dist),
        "linf" => run::<F, _>(inp, LInfDist),
        m => panic!("unknown metric {}", m),
    }
}

fn main() {
    run_cases(|case| {
        let inp = &case["inp"];
        match gets(inp, "ft") {
            "f32" => run_ft::<f32>(inp),
            _ => run_ft::<f64>(inp),
        }
    });
}
