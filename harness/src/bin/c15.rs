//! C15 harness: incremental fitting (`fit_with`) of Gaussian / multinomial naive Bayes, mini-batch
//! k-means and FTRL on integer-lattice data, batch by batch as the case prescribes.
//! After every call the model state is logged (naive Bayes: private sufficient statistics through
//! the public serde form; k-means: centroids / cluster_count / Ok-vs-NotConverged; FTRL: z, n,
//! weights, probabilities) as integer-only JSON. No judging here: the oracle is Trace_Incremental.tla.
use linfa::dataset::{Dataset, DatasetBase, DatasetView};
use linfa::traits::{Fit, FitWith, Predict};
use linfa::ParamGuard;
use linfa_bayes::{GaussianNb, MultinomialNb};
use linfa_clustering::{IncrKMeansError, KMeans, KMeansInit};
use linfa_ftrl::Ftrl;
use linfa_nn::distance::{Distance, L1Dist, L2Dist, LInfDist};
use ndarray::{Array1, Array2, Axis};
use rand_xoshiro::rand_core::SeedableRng;
use rand_xoshiro::Xoshiro256Plus;
use vh::serde_json::{json, Value};
use vh::*;

const S6: f64 = 1_000_000.0;
const S4: f64 = 10_000.0;

/// fixed point with integer sentinels instead of strings (TLC cannot compare a string with a number):
/// nan 2000000001, +inf 2000000002, -inf -2000000002, |v*s| >= 2^30: +-2000000003
fn fxs(v: f64, s: f64) -> Value {
    if v.is_nan() {
        return json!(2_000_000_001i64);
    }
    if v.is_infinite() {
        return json!(if v > 0.0 { 2_000_000_002i64 } else { -2_000_000_002i64 });
    }
    let x = (v * s).round();
    if x.abs() >= 1073741824.0 {
        return json!(if x > 0.0 { 2_000_000_003i64 } else { -2_000_000_003i64 });
    }
    json!(x as i64)
}
fn fxsv<'a>(vs: impl IntoIterator<Item = &'a f64>, s: f64) -> Value {
    Value::Array(vs.into_iter().map(|v| fxs(*v, s)).collect())
}
fn fxsm(a: &ndarray::ArrayView2<f64>, s: f64) -> Value {
    Value::Array(a.outer_iter().map(|r| fxsv(r.iter(), s)).collect())
}
const NONFIN: i64 = 2_000_000_000;

fn rat(v: &Value, k: &str) -> f64 {
    let r = v.get(k).unwrap_or_else(|| panic!("missing rational {}", k));
    geti(r, "num") as f64 / geti(r, "den") as f64
}

/// batches as (start, end) row ranges from the list of batch sizes
fn cuts(inp: &Value) -> Vec<(usize, usize)> {
    let mut out = Vec::new();
    let mut s = 0usize;
    for c in ivec(&inp["cuts"]) {
        out.push((s, s + c as usize));
        s += c as usize;
    }
    out
}

fn arr1(v: &Value) -> Vec<f64> {
    // ndarray serde form {"v":1,"dim":[d],"data":[...]} ; non-finite floats are serialised as null
    v["data"].as_array().expect("ndarray data").iter().map(|x| x.as_f64().unwrap_or(f64::NAN)).collect()
}

fn labels_json(p: &Array1<usize>) -> Value {
    Value::Array(p.iter().map(|l| json!(*l as i64)).collect())
}

// ---------------------------------------------------------------------------------------------
// naive Bayes: state of a model read from its serde-JSON form, classes sorted by label

fn nb_state(model_json: &Value, gaussian: bool, off: f64) -> Value {
    let ci = model_json["class_info"].as_object().expect("class_info");
    let mut labs: Vec<i64> = ci.keys().map(|k| k.parse::<i64>().expect("label key")).collect();
    labs.sort();
    let mut out = Vec::new();
    for l in labs {
        let info = &ci[&l.to_string()];
        let prior = info["prior"].as_f64().unwrap_or(f64::NAN);
        if gaussian {
            out.push(json!({"label": l, "count": info["class_count"].as_i64().unwrap(), "prior": fxs(prior, S6),
                            "theta": fxsv(arr1(&info["theta"]).iter().map(|v| v - off).collect::<Vec<f64>>().iter(), S6), "sigma": fxsv(arr1(&info["sigma"]).iter(), S6)}));
        } else {
            let fc = arr1(&info["feature_count"]);
            // ln 0 = -inf is serialised as null by serde_json: read the sign back from the count
            let flp_raw = info["feature_log_prob"]["data"].as_array().unwrap();
            let flp: Vec<Value> = flp_raw
                .iter()
                .map(|x| match x.as_f64() {
                    Some(v) => fxs(v, S4),
                    None => json!(NONFIN),
                })
                .collect();
            out.push(json!({"label": l, "count": info["class_count"].as_i64().unwrap(), "prior": fxs(prior, S6),
                            "fcount": Value::Array(fc.iter().map(|v| exact_int(*v)).collect()), "flp": flp}));
        }
    }
    Value::Array(out)
}

fn run_gnb(inp: &Value) -> Vec<Value> {
    let d = geti(inp, "d") as usize;
    let rows = imat(&inp["rows"]);
    let labels: Vec<usize> = ivec(&inp["labels"]).iter().map(|l| *l as usize).collect();
    // optional exactly representable offset 2^offk added to every feature (and every query); means are logged
    // with the offset subtracted again, variances are shift-invariant: the specification works on the un-shifted integers
    let off = match inp.get("offk").and_then(|v| v.as_i64()).unwrap_or(0) {
        0 => 0.0,
        k => (2.0f64).powi(k as i32),
    };
    let x = to_array2(&rows, d).mapv(|v| v + off);
    let y = Array1::from(labels);
    let q = to_array2(&imat(&inp["queries"]), d).mapv(|v| v + off);
    let vs = rat(inp, "vs");
    let params = match GaussianNb::<f64, usize>::params().var_smoothing(vs).check() {
        Ok(p) => p,
        Err(e) => return vec![json!({"ev": "error", "at": "check", "msg": format!("{}", e)})],
    };
    let mut ev = Vec::new();
    let mut model: Option<GaussianNb<f64, usize>> = None;
    for (i, (s, e)) in cuts(inp).into_iter().enumerate() {
        let xb = x.slice(ndarray::s![s..e, ..]);
        let yb = y.slice(ndarray::s![s..e]);
        let ds = DatasetView::new(xb, yb);
        match guarded(|| params.fit_with(model.take(), &ds)) {
            Ok(Ok(m)) => model = m,
            Ok(Err(e)) => {
                ev.push(json!({"ev": "error", "at": "fit_with", "after": i + 1, "msg": format!("{}", e)}));
                return ev;
            }
            Err(p) => {
                ev.push(panic_event("fit_with", &p));
                return ev;
            }
        }
        let m = model.as_ref().unwrap();
        let st = nb_state(&serde_json::to_value(m).unwrap(), true, off);
        let (predok, pred) = match guarded(|| m.predict(&q)) {
            Ok(p) => (true, labels_json(&p)),
            Err(_) => (false, json!([])),
        };
        ev.push(json!({"ev": "state", "after": i + 1, "classes": st, "predok": predok, "pred": pred}));
    }
    // the single fit on the whole dataset
    let ds = DatasetView::new(x.view(), y.view());
    match guarded(|| params.fit(&ds)) {
        Ok(Ok(m)) => {
            let st = nb_state(&serde_json::to_value(&m).unwrap(), true, off);
            let (predok, pred) = match guarded(|| m.predict(&q)) {
                Ok(p) => (true, labels_json(&p)),
                Err(_) => (false, json!([])),
            };
            ev.push(json!({"ev": "whole", "classes": st, "predok": predok, "pred": pred}));
        }
        Ok(Err(e)) => ev.push(json!({"ev": "error", "at": "fit", "msg": format!("{}", e)})),
        Err(p) => ev.push(panic_event("fit", &p)),
    }
    ev
}

fn run_mnb(inp: &Value) -> Vec<Value> {
    let d = geti(inp, "d") as usize;
    let rows = imat(&inp["rows"]);
    let labels: Vec<usize> = ivec(&inp["labels"]).iter().map(|l| *l as usize).collect();
    let x = to_array2(&rows, d);
    let y = Array1::from(labels);
    let q = to_array2(&imat(&inp["queries"]), d);
    let alpha = rat(inp, "alpha");
    let params = match MultinomialNb::<f64, usize>::params().alpha(alpha).check() {
        Ok(p) => p,
        Err(e) => return vec![json!({"ev": "error", "at": "check", "msg": format!("{}", e)})],
    };
    let mut ev = Vec::new();
    let mut model: Option<MultinomialNb<f64, usize>> = None;
    for (i, (s, e)) in cuts(inp).into_iter().enumerate() {
        let xb = x.slice(ndarray::s![s..e, ..]);
        let yb = y.slice(ndarray::s![s..e]);
        let ds = DatasetView::new(xb, yb);
        match guarded(|| params.fit_with(model.take(), &ds)) {
            Ok(Ok(m)) => model = m,
            Ok(Err(e)) => {
                ev.push(json!({"ev": "error", "at": "fit_with", "after": i + 1, "msg": format!("{}", e)}));
                return ev;
            }
            Err(p) => {
                ev.push(panic_event("fit_with", &p));
                return ev;
            }
        }
        let m = model.as_ref().unwrap();
        let st = nb_state(&serde_json::to_value(m).unwrap(), false, 0.0);
        let (predok, pred) = match guarded(|| m.predict(&q)) {
            Ok(p) => (true, labels_json(&p)),
            Err(_) => (false, json!([])),
        };
        ev.push(json!({"ev": "state", "after": i + 1, "classes": st, "predok": predok, "pred": pred}));
    }
    let ds = DatasetView::new(x.view(), y.view());
    match guarded(|| params.fit(&ds)) {
        Ok(Ok(m)) => {
            let st = nb_state(&serde_json::to_value(&m).unwrap(), false, 0.0);
            let (predok, pred) = match guarded(|| m.predict(&q)) {
                Ok(p) => (true, labels_json(&p)),
                Err(_) => (false, json!([])),
            };
            ev.push(json!({"ev": "whole", "classes": st, "predok": predok, "pred": pred}));
        }
        Ok(Err(e)) => ev.push(json!({"ev": "error", "at": "fit", "msg": format!("{}", e)})),
        Err(p) => ev.push(panic_event("fit", &p)),
    }
    ev
}

// ---------------------------------------------------------------------------------------------
// mini-batch k-means

fn km_digest<D: Distance<f64>>(m: &KMeans<f64, D>) -> Value {
    let mut v: Vec<f64> = m.centroids().iter().cloned().collect();
    v.extend(m.cluster_count().iter().cloned());
    digest_f64(v.iter())
}

/// one pass over the history under the distance function `dist` (KMeans::params_with);
/// returns per batch (ok flag, centroids, counts, digest)
fn km_history_with<D: Distance<f64> + Clone + std::fmt::Debug>(inp: &Value, dist: D) -> Result<Vec<(bool, Value, Value, Value)>, Value> {
    let d = geti(inp, "d") as usize;
    let k = geti(inp, "k") as usize;
    let tol = rat(inp, "tol");
    let seed = geti(inp, "seed") as u64;
    let init = match gets(inp, "init") {
        "pre" => KMeansInit::Precomputed(to_array2(&imat(&inp["cent"]), d)),
        "random" => KMeansInit::Random,
        "kpp" => KMeansInit::KMeansPlusPlus,
        "para" => KMeansInit::KMeansPara,
        other => panic!("unknown init {}", other),
    };
    let nruns = inp.get("nruns").and_then(|v| v.as_i64()).unwrap_or(1) as usize;
    let params = KMeans::<f64, D>::params_with(k, Xoshiro256Plus::seed_from_u64(seed), dist)
        .tolerance(tol)
        .n_runs(nruns)
        .init_method(init)
        .check()
        .map_err(|e| json!({"ev": "error", "at": "check", "msg": format!("{}", e)}))?;
    let mut out = Vec::new();
    let mut model = None;
    for (i, b) in geta(inp, "batches").iter().enumerate() {
        let xb = to_array2(&imat(b), d);
        let ds = DatasetBase::from(xb);
        let (ok, m) = match guarded(|| params.fit_with(model.take(), &ds)) {
            Ok(Ok(m)) => (true, m),
            Ok(Err(IncrKMeansError::NotConverged(m))) => (false, m),
            Ok(Err(e)) => return Err(json!({"ev": "error", "at": "fit_with", "after": i + 1, "msg": format!("{}", e)})),
            Err(p) => return Err(panic_event("fit_with", &p)),
        };
        let cent = fxsm(&m.centroids().view(), S6);
        let cnt = Value::Array(m.cluster_count().iter().map(|v| exact_int(*v)).collect());
        out.push((ok, cent, cnt, km_digest(&m)));
        model = Some(m);
    }
    Ok(out)
}

fn km_history(inp: &Value) -> Result<Vec<(bool, Value, Value, Value)>, Value> {
    match inp.get("metric").and_then(|v| v.as_str()).unwrap_or("l2") {
        "l2" => km_history_with(inp, L2Dist),
        "l1" => km_history_with(inp, L1Dist),
        "linf" => km_history_with(inp, LInfDist),
        other => panic!("unknown metric {}", other),
    }
}

fn run_kmeans(inp: &Value) -> Vec<Value> {
    let h1 = match km_history(inp) {
        Ok(h) => h,
        Err(e) => return vec![e],
    };
    // the same history again, from freshly built parameters (same seed): "a function of the history alone".
    // Seeded initialisers are re-run three times; the first re-run that differs (if any) is the one reported.
    let reruns = if gets(inp, "init") == "pre" { 1 } else { 3 };
    let mut h2 = Vec::new();
    for _ in 0..reruns {
        h2 = match km_history(inp) {
            Ok(h) => h,
            Err(e) => return vec![e],
        };
        if h2.len() != h1.len() || h1.iter().zip(h2.iter()).any(|(a, b)| a.0 != b.0 || a.3 != b.3) {
            break;
        }
    }
    let mut ev = Vec::new();
    for (i, ((ok, cent, cnt, dig), (ok2, _, _, dig2))) in h1.into_iter().zip(h2.into_iter()).enumerate() {
        ev.push(json!({"ev": "km", "after": i + 1, "ok": ok, "cent": cent, "count": cnt, "dig": dig, "ok2": ok2, "dig2": dig2}));
    }
    ev
}

// ---------------------------------------------------------------------------------------------
// FTRL

/// FTRL models are run in f64 or f32 (inp.ft). A history may carry a power-of-two UNIT u (inp.unit): feature values
/// are given as integers, z0 / beta in units of u; the state is logged as z/u, n/u^2 (exact scalings), so that the
/// specification sees an ordinary-magnitude recurrence while the code works on badly scaled features.
fn ftrl_snapshot<F: linfa::Float>(m: &Ftrl<F>, u: f64) -> Value {
    let w: Vec<f64> = m.get_weights().iter().map(|v| v.to_f64().unwrap()).collect();
    let z: Vec<f64> = m.z().iter().map(|v| v.to_f64().unwrap() / u).collect();
    let n: Vec<f64> = m.n().iter().map(|v| v.to_f64().unwrap() / (u * u)).collect();
    json!({
        "z": fxsv(z.iter(), S6), "n": fxsv(n.iter(), S6), "w": fxsv(w.iter(), S6),
        "zk": Value::Array(z.iter().map(|v| key64(v.abs() * u)).collect()),
        "nk": Value::Array(n.iter().map(|v| key64(*v)).collect()),
        "wk": Value::Array(w.iter().map(|v| key64(*v)).collect()),
    })
}
fn ftrl_digest<F: linfa::Float>(m: &Ftrl<F>) -> Value {
    let mut v: Vec<f64> = m.z().iter().map(|x| x.to_f64().unwrap()).collect();
    v.extend(m.n().iter().map(|x| x.to_f64().unwrap()));
    digest_f64(v.iter())
}

fn ftrl_history<F>(inp: &Value, explicit_new: bool) -> Result<(Vec<Value>, Vec<Value>), Value>
where
    F: linfa::Float + serde::de::DeserializeOwned + serde::Serialize,
{
    let d = geti(inp, "d") as usize;
    let u = inp.get("unit").and_then(|v| v.as_i64()).unwrap_or(1) as f64;
    let h = &inp["hyper"];
    let (alpha, beta, l1, l2) = (rat(h, "alpha"), rat(h, "beta") * u, rat(h, "l1"), rat(h, "l2"));
    let seed = geti(inp, "seed") as u64;
    let params = Ftrl::<F>::params_with_rng(Xoshiro256Plus::seed_from_u64(seed))
        .alpha(F::cast(alpha))
        .beta(F::cast(beta))
        .l1_ratio(F::cast(l1))
        .l2_ratio(F::cast(l2));
    let valid = params.clone().check().map_err(|e| json!({"ev": "error", "at": "check", "msg": format!("{}", e)}))?;
    // optional second parameter object (inp.hyper2): the model is built from `hyper`, but every
    // fit_with(Some(model), ..) is called on parameters made from `hyper2` (a continued model re-tuned / default params)
    let valid_call = match inp.get("hyper2") {
        Some(h2) if h2.is_object() => Ftrl::<F>::params_with_rng(Xoshiro256Plus::seed_from_u64(seed))
            .alpha(F::cast(rat(h2, "alpha")))
            .beta(F::cast(rat(h2, "beta") * u))
            .l1_ratio(F::cast(rat(h2, "l1")))
            .l2_ratio(F::cast(rat(h2, "l2")))
            .check()
            .map_err(|e| json!({"ev": "error", "at": "check2", "msg": format!("{}", e)}))?,
        _ => valid.clone(),
    };
    // initial model: "seed" = Ftrl::new (random z from the seeded generator), "given" = chosen z, n
    // installed through the public Deserialize impl (the fields are private)
    let mut model: Option<Ftrl<F>> = match gets(inp, "init") {
        "seed" => {
            if explicit_new {
                Some(Ftrl::new(valid.clone(), d))
            } else {
                None
            }
        }
        "given" => {
            let z: Vec<f64> = geta(inp, "z0").iter().map(|r| u * geti(r, "num") as f64 / geti(r, "den") as f64).collect();
            let n: Vec<f64> = geta(inp, "n0").iter().map(|r| u * u * geti(r, "num") as f64 / geti(r, "den") as f64).collect();
            let j = json!({"alpha": alpha, "beta": beta, "l1_ratio": l1, "l2_ratio": l2,
                           "z": {"v": 1, "dim": [d], "data": z}, "n": {"v": 1, "dim": [d], "data": n}});
            Some(serde_json::from_value(j).expect("Ftrl from json"))
        }
        other => panic!("unknown init {}", other),
    };
    let l1k = key64(F::cast(l1).to_f64().unwrap());
    let mut ev = Vec::new();
    let mut digs = Vec::new();
    if let Some(m) = model.as_ref() {
        let mut s = ftrl_snapshot(m, u);
        s["ev"] = json!("ft0");
        s["l1k"] = l1k.clone();
        ev.push(s);
    }
    for (i, b) in geta(inp, "batches").iter().enumerate() {
        let xb = to_array2(&imat(&b["x"]), d).mapv(F::cast);
        let yb: Array1<bool> = Array1::from(geta(b, "y").iter().map(|v| v.as_bool().expect("bool")).collect::<Vec<_>>());
        // probabilities of the batch rows under the model before the update (public predict)
        let p = match model.as_ref() {
            Some(m) => match guarded(|| m.predict(&xb)) {
                Ok(p) => Value::Array(p.iter().map(|pr| fxs(**pr as f64, S6)).collect()),
                Err(_) => json!([]),
            },
            None => json!([]),
        };
        let ds = Dataset::new(xb, yb);
        // second calling form of the same step: the public `update` with the probabilities the model predicts
        let upd = model.as_ref().map(|m0| {
            let mut m2 = m0.clone();
            match guarded(|| {
                let pr = m2.predict(ds.records());
                m2.update(&ds, pr.view());
                ftrl_digest(&m2)
            }) {
                Ok(dg) => dg,
                Err(_) => json!([-1, -1]),
            }
        });
        let m = match guarded(|| valid_call.fit_with(model.take(), &ds)) {
            Ok(Ok(m)) => m,
            Ok(Err(e)) => return Err(json!({"ev": "error", "at": "fit_with", "after": i + 1, "msg": format!("{}", e)})),
            Err(pm) => return Err(panic_event("fit_with", &pm)),
        };
        // a state outside the fixed-point range (|v| * 10^6 >= 2^30) cannot be logged: the history is cut here and
        // the specification decides from the previous state whether leaving the range was to be expected
        let out_of_range = m
            .z()
            .iter()
            .map(|v| v.to_f64().unwrap() / u)
            .chain(m.n().iter().map(|v| v.to_f64().unwrap() / (u * u)))
            .any(|v| v.is_finite() && (v * S6).abs() >= 1073741824.0);
        if out_of_range {
            ev.push(json!({"ev": "ft_big", "after": i + 1, "p": p}));
            break;
        }
        let mut s = ftrl_snapshot(&m, u);
        s["ev"] = json!("ft");
        s["after"] = json!(i + 1);
        s["p"] = p;
        s["l1k"] = l1k.clone();
        s["dig"] = ftrl_digest(&m);
        s["updig"] = upd.unwrap_or_else(|| ftrl_digest(&m));
        ev.push(s);
        digs.push(ftrl_digest(&m));
        model = Some(m);
    }
    Ok((ev, digs))
}

fn run_ftrl_t<F>(inp: &Value) -> Vec<Value>
where
    F: linfa::Float + serde::de::DeserializeOwned + serde::Serialize,
{
    let (mut ev, d1) = match ftrl_history::<F>(inp, true) {
        Ok(x) => x,
        Err(e) => return vec![e],
    };
    // the same history again: from fresh parameters, and (seeded start) through fit_with(None, ..)
    let (_, d2) = match ftrl_history::<F>(inp, false) {
        Ok(x) => x,
        Err(e) => return vec![e],
    };
    ev.push(json!({"ev": "rerun", "dig": d1, "dig2": d2}));
    ev
}
fn run_ftrl(inp: &Value) -> Vec<Value> {
    match inp.get("ft").and_then(|v| v.as_str()).unwrap_or("f64") {
        "f32" => run_ftrl_t::<f32>(inp),
        _ => run_ftrl_t::<f64>(inp),
    }
}

fn main() {
    run_cases(|c| {
        let inp = &c["inp"];
        match gets(c, "kind") {
            "gnb" => run_gnb(inp),
            "mnb" => run_mnb(inp),
            "kmeans" => run_kmeans(inp),
            "ftrl" => run_ftrl(inp),
            other => vec![json!({"ev": "error", "at": "kind", "msg": other})],
        }
    });
}

#[allow(dead_code)]
fn unused(_: Array2<f64>, _: Axis) {}
