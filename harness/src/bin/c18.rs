//! C18 harness: principal component analysis (`linfa_reduction::Pca`).
//! One case = one integer record matrix `x` (n x p) plus integer probe rows `q`.  For every
//! embedding size k in `ks` (default 1..=p) and whitening off/on the real `Pca::params(k).whiten(w).fit(..)` is
//! called (the k = p, un-whitened fit first) and three events are recorded per fit:
//!   fit  : result, mean, singular values (+ order keys), components, explained variance (+ratio)
//!   proj : predict / transform of the training records, predict of the probe rows, predict_inplace into a
//!          garbage-filled buffer (training rows) and into a reused buffer (probe rows)
//!   inv  : inverse_transform of those projections
//! followed by `err` events for embedding sizes 0 and p+1 and for an empty record matrix.
//! Nothing is judged here: floats are logged as fixed point integers (scales S / SW; the `fin` flags
//! say that every entry of the event could be logged as an integer), the relation is
//! evaluated by TLC (specs/Trace_Pca.tla).
use linfa::traits::{Fit, Predict, PredictInplace, Transformer};
use linfa::DatasetBase;
use linfa_reduction::Pca;
use ndarray::{Array1, Array2, ArrayView2, ShapeBuilder};
use vh::serde_json::{json, Value};
use vh::*;

const S: f64 = 1e4; // mean, singular values, un-whitened components, variances, ratios, projections
const SW: f64 = 1e6; // whitened components (they shrink like 1/sigma)

fn mat(a: &ArrayView2<f64>, s: f64) -> Value {
    fxm(a, s)
}
/// every entry is logged as an integer (finite and |v * s| < 2^30, see `vh::fx`)
fn intv<'a>(vs: impl IntoIterator<Item = &'a f64>, s: f64) -> bool {
    vs.into_iter().all(|v| v.is_finite() && (v * s).round().abs() < 1073741824.0)
}
fn int2(a: &ArrayView2<f64>, s: f64) -> bool {
    intv(a.iter(), s)
}

enum Form {
    Owned,
    View,
    Fortran,
}

/// fit through one of the calling forms: owned dataset, dataset of a borrowed view, dataset of a
/// column-major (transposed-storage) array
fn fit_form(form: &Form, x: &Array2<f64>, k: usize, wh: bool) -> Result<Pca<f64>, String> {
    let params = Pca::params(k).whiten(wh);
    let r = match form {
        Form::Owned => {
            let ds = DatasetBase::from(x.clone());
            params.fit(&ds)
        }
        Form::View => {
            let ds = DatasetBase::from(x.view());
            params.fit(&ds)
        }
        Form::Fortran => {
            let (n, p) = x.dim();
            let mut xf = Array2::<f64>::zeros((n, p).f());
            xf.assign(x);
            let ds = DatasetBase::from(xf);
            params.fit(&ds)
        }
    };
    r.map_err(|e| {
        let s = format!("{:?}", e);
        s.chars().filter(|c| c.is_ascii_alphanumeric()).take(40).collect()
    })
}

fn run(case: &Value) -> Vec<Value> {
    let inp = &case["inp"];
    let n = geti(inp, "n") as usize;
    let p = geti(inp, "p") as usize;
    let xs = imat(&inp["x"]);
    let qs = imat(&inp["q"]);
    let form = match inp.get("form").and_then(|f| f.as_str()).unwrap_or("owned") {
        "view" => Form::View,
        "fortran" => Form::Fortran,
        _ => Form::Owned,
    };
    assert_eq!(xs.len(), n);
    // `unit` (default 1): the implementation is run on unit * x (still an integer matrix) and every
    // observation is logged in units of `unit` (lengths / unit, variances / unit^2, whitened components
    // * unit), so that the specification sees the PCA of x itself. This reaches magnitudes whose
    // fixed-point images would not fit 32 bits; it is a change of the unit of length, nothing else.
    // `ushift` = e: unit = 2^-e (exact in binary floating point) reaches very small magnitudes the same way.
    let mut unit = inp.get("unit").and_then(|v| v.as_i64()).unwrap_or(1).max(1) as f64;
    if let Some(e) = inp.get("ushift").and_then(|v| v.as_i64()) {
        unit *= (2.0f64).powi(-(e as i32));
    }
    // `offs` (default 0): an integer offset per column (up to ~2^31, exact in f64) is added to the records and
    // the probe rows before they reach the implementation and subtracted from the logged mean and
    // reconstructions: PCA is shift-invariant apart from the mean, the specification keeps the un-shifted x.
    let offs: Array1<f64> = match inp.get("offs") {
        Some(v) => Array1::from(ivec(v).into_iter().map(|o| o as f64).collect::<Vec<_>>()),
        None => Array1::zeros(p),
    };
    let x = (to_array2(&xs, p) + &offs) * unit;
    let q = (to_array2(&qs, p) + &offs) * unit;
    let unshift = |a: &Array2<f64>| -> Array2<f64> { a / unit - &offs };
    let mut ev: Vec<Value> = vec![];

    // embedding sizes to run (default: all of 1..=p); the complete un-whitened fit always comes first
    let ks: Vec<usize> = match inp.get("ks") {
        Some(v) => ivec(v).into_iter().map(|k| k as usize).collect(),
        None => (1..=p).collect(),
    };
    // number of training rows whose projection / reconstruction is logged (default: all)
    let zr = inp.get("zr").and_then(|v| v.as_i64()).map(|v| v as usize).unwrap_or(n).min(n);
    let xz = x.slice(ndarray::s![..zr, ..]).to_owned();
    let mut order: Vec<(usize, bool)> = vec![(p, false)];
    for &k in ks.iter().filter(|&&k| k < p) {
        order.push((k, false));
    }
    for &k in ks.iter() {
        order.push((k, true));
    }
    for (k, wh) in order {
        let res = match guarded(|| fit_form(&form, &x, k, wh)) {
            Ok(r) => r,
            Err(msg) => {
                ev.push(panic_event("fit", &msg));
                continue;
            }
        };
        let model = match res {
            Err(e) => {
                ev.push(json!({"ev": "fit", "k": k, "wh": wh, "ok": false, "err": e}));
                continue;
            }
            Ok(m) => m,
        };
        let sig = model.singular_values().clone();
        let comp = model.components().clone();
        let evar = match guarded(|| model.explained_variance()) {
            Ok(v) => v,
            Err(msg) => {
                ev.push(panic_event("explained_variance", &msg));
                Array1::zeros(0)
            }
        };
        let evr = match guarded(|| model.explained_variance_ratio()) {
            Ok(v) => v,
            Err(msg) => {
                ev.push(panic_event("explained_variance_ratio", &msg));
                Array1::zeros(0)
            }
        };
        ev.push(json!({
            "ev": "fit", "k": k, "wh": wh, "ok": true, "err": "",
            "mean": fxv((model.mean() / unit - &offs).iter(), S),
            "sig": fxv(sig.iter(), S / unit),
            "sigk": sig.iter().map(|v| key64(*v)).collect::<Vec<_>>(),
            "comp": mat(&comp.view(), if wh { SW * unit } else { S }),
            "evar": fxv(evar.iter(), S / (unit * unit)),
            "evr": fxv(evr.iter(), S),
            "fin": intv((model.mean() / unit - &offs).iter(), S) && intv(sig.iter(), S / unit) && int2(&comp.view(), if wh { SW * unit } else { S }),
            "evfin": intv(evar.iter(), S / (unit * unit)),
            "evrfin": intv(evr.iter(), S),
        }));

        // projections: predict on the array, transform on the dataset, predict on the probe rows
        let pr = guarded(|| {
            let z: Array2<f64> = model.predict(&x).slice(ndarray::s![..zr, ..]).to_owned();
            let zt: Array2<f64> = model.transform(DatasetBase::from(xz.clone())).records;
            let zq: Array2<f64> = match form {
                Form::View => model.predict(&q.view()),
                _ => model.predict(&q),
            };
            // the in-place calling form: into a buffer full of garbage, and into a buffer that is
            // reused from a previous call (default_target once, then two calls)
            let mut zi: Array2<f64> = Array2::from_shape_fn((zr, z.ncols()), |(r, c)| 1000.5 + 3.0 * r as f64 - c as f64);
            model.predict_inplace(&xz, &mut zi);
            let mut zqi: Array2<f64> = model.default_target(&q);
            model.predict_inplace(&q, &mut zqi);
            model.predict_inplace(&q, &mut zqi);
            (z, zt, zq, zi, zqi)
        });
        let (z, zt, zq, zi, zqi) = match pr {
            Ok(t) => t,
            Err(msg) => {
                ev.push(panic_event("proj", &msg));
                continue;
            }
        };
        // un-whitened projections are lengths (units of `unit`), whitened ones are dimensionless
        let sz = if wh { S } else { S / unit };
        ev.push(json!({
            "ev": "proj", "k": k, "wh": wh,
            "z": mat(&z.view(), sz), "zt": mat(&zt.view(), sz), "zq": mat(&zq.view(), sz),
            "zi": mat(&zi.view(), sz), "zqi": mat(&zqi.view(), sz),
            "fin": int2(&z.view(), sz) && int2(&zt.view(), sz) && int2(&zq.view(), sz) && int2(&zi.view(), sz) && int2(&zqi.view(), sz),
        }));

        // transform followed by inverse transform
        let iv = guarded(|| (model.inverse_transform(z.clone()), model.inverse_transform(zq.clone())));
        match iv {
            Ok((rx, rq)) => ev.push(json!({
                "ev": "inv", "k": k, "wh": wh,
                "rx": mat(&unshift(&rx).view(), S), "rq": mat(&unshift(&rq).view(), S),
                "fin": int2(&unshift(&rx).view(), S) && int2(&unshift(&rq).view(), S),
            })),
            Err(msg) => ev.push(panic_event("inv", &msg)),
        }
    }

    // invalid embedding sizes and the empty dataset must be errors
    for (what, k, wh) in [("k0", 0usize, false), ("kbig", p + 1, false), ("kbig", p + 1, true), ("k0", 0usize, true)] {
        match guarded(|| fit_form(&form, &x, k, wh)) {
            Ok(r) => ev.push(json!({"ev": "err", "what": what, "k": k, "wh": wh, "ok": r.is_ok(), "err": r.err().unwrap_or_default()})),
            Err(msg) => ev.push(panic_event(what, &msg)),
        }
    }
    let empty = Array2::<f64>::zeros((0, p));
    for k in [1usize, p] {
        match guarded(|| fit_form(&form, &empty, k, false)) {
            Ok(r) => ev.push(json!({"ev": "err", "what": "empty", "k": k, "wh": false, "ok": r.is_ok(), "err": r.err().unwrap_or_default()})),
            Err(msg) => ev.push(panic_event("empty", &msg)),
        }
    }
    ev
}

fn main() {
    run_cases(run);
}
