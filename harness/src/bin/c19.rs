//! C19 harness: serialised models and parameter sets deserialise to behaviourally identical values.
//!
//! A case names a type of the catalogue (`inp.type`), a float type (`ft`), a configuration index
//! (`var`), a data seed (`data`) and a chain of formats (`fmts`, each "bincode" | "json").
//! The harness builds the value with the real linfa API (fitting on small deterministic data),
//! observes it (public accessors, predictions / transforms on fixed queries, validation verdict and
//! re-fit of parameter sets), sends it through every format of the chain and observes every restored
//! value with the *same* observation function.  Every observation is logged as a digest of exact
//! bit patterns; whether two observations agree is decided by TLC (Trace_Persist.tla), never here.
//!
//! Events:
//!   {"ev":"create","h":0,"type":..,"role":..}
//!   {"ev":"obs","h":h,"key":..,"cls":"f"|"d"|"b","st":"ok"|"guard"|"panic","d":[a,b]}
//!        cls f = float bit patterns, d = discrete, b = behaviour that needs a part that cannot be
//!        serialised (a tokenizer function), l = memory layout of a matrix accessor (reported, never
//!        required to agree: the statement is about values and behaviour, not layout);
//!        st guard = the documented TokenizerNotSet refusal
//! `inp.wide = 2`: as 1, and every training set is handed to `fit` in column-major (Fortran) order, so that
//! models which keep (a copy of) the records or inherit their layout hold non-row-major matrices.
//! `inp.wide = 1` (types with matrix parameters): the value is fitted on 8..12 features instead of 2..3, so
//! that unrolled kernels and layout-dependent code paths are exercised; predictions / transforms are observed
//! through every public calling form (owned array, view, column-major, strided view, dataset forms).
//!   {"ev":"rt","h":from,"to":to,"fmt":..,"ser":"ok"|"err"|"unimpl","de":"ok"|"err"|"unimpl"|"na",
//!        "lossless":bool,"len":bytes}
//!        unimpl = the concrete type does not implement Serialize / Deserialize at all although it
//!        carries the derive attribute (detected at compile time by an inherent-method probe, so the
//!        harness builds either way); lossless = every float token of the JSON text is re-parsed by
//!        serde_json to exactly the float the standard library parses (always true for bincode)
//!   {"ev":"eq","a":0,"b":h,"res":bool}     PartialEq between the original and a restored value
//!   {"ev":"rearm","h":h}                    the tokenizer function was set again on restored h
#![allow(clippy::type_complexity)]
use linfa::dataset::DatasetBase;
use linfa::traits::{Fit, Predict, Transformer};
use linfa::ParamGuard;
use linfa_nn::distance::{Distance, L1Dist, L2Dist, LInfDist, LpDist};
use linfa_nn::{BallTree, CommonNearestNeighbour, KdTree, LinearSearch, NearestNeighbour};
use ndarray::{Array1, Array2, Axis};
use rand_xoshiro::rand_core::SeedableRng;
use rand_xoshiro::Xoshiro256Plus;
use serde::de::DeserializeOwned;
use serde::Serialize;
use std::marker::PhantomData;
use vh::serde_json::{json, Value};
use vh::*;

// ---------------------------------------------------------------------------------------------
// compile-time probe: does the concrete type implement the serde traits at all?
// (inherent methods win over trait methods when their where-clauses hold for the concrete type)

fn encode<T: Serialize>(v: &T, fmt: &str) -> Result<Vec<u8>, String> {
    match fmt {
        "bincode" => bincode::serialize(v).map_err(|e| e.to_string()),
        "json" => serde_json::to_vec(v).map_err(|e| e.to_string()),
        _ => panic!("harness: unknown format {}", fmt),
    }
}
fn decode<T: DeserializeOwned>(b: &[u8], fmt: &str) -> Result<T, String> {
    match fmt {
        "bincode" => bincode::deserialize(b).map_err(|e| e.to_string()),
        "json" => serde_json::from_slice(b).map_err(|e| e.to_string()),
        _ => panic!("harness: unknown format {}", fmt),
    }
}
struct MaybeSer<'a, T>(&'a T);
trait SerFallback {
    fn enc(&self, _fmt: &str) -> Option<Result<Vec<u8>, String>> {
        None
    }
}
impl<'a, T> SerFallback for MaybeSer<'a, T> {}
impl<'a, T: Serialize> MaybeSer<'a, T> {
    fn enc(&self, fmt: &str) -> Option<Result<Vec<u8>, String>> {
        Some(encode(self.0, fmt))
    }
}
struct MaybeDe<T>(PhantomData<T>);
trait DeFallback<T> {
    fn dec(&self, _b: &[u8], _fmt: &str) -> Option<Result<T, String>> {
        None
    }
}
impl<T> DeFallback<T> for MaybeDe<T> {}
impl<T: DeserializeOwned> MaybeDe<T> {
    fn dec(&self, b: &[u8], fmt: &str) -> Option<Result<T, String>> {
        Some(decode(b, fmt))
    }
}
struct Codec<T> {
    enc: fn(&T, &str) -> Option<Result<Vec<u8>, String>>,
    dec: fn(&[u8], &str) -> Option<Result<T, String>>,
}
macro_rules! codec {
    ($T:ty) => {
        Codec::<$T> { enc: |v: &$T, f: &str| MaybeSer(v).enc(f), dec: |b: &[u8], f: &str| MaybeDe::<$T>(PhantomData).dec(b, f) }
    };
}

// ---------------------------------------------------------------------------------------------
// digests of exact bit patterns

trait Fl: linfa::Float + Serialize + DeserializeOwned + std::fmt::Debug {
    fn of(v: f64) -> Self;
    fn bits(self) -> u64;
    fn to64(self) -> f64;
    const NAME: &'static str;
}
impl Fl for f64 {
    fn of(v: f64) -> f64 {
        v
    }
    fn bits(self) -> u64 {
        self.to_bits()
    }
    fn to64(self) -> f64 {
        self
    }
    const NAME: &'static str = "f64";
}
impl Fl for f32 {
    fn of(v: f64) -> f32 {
        v as f32
    }
    fn bits(self) -> u64 {
        self.to_bits() as u64
    }
    fn to64(self) -> f64 {
        self as f64
    }
    const NAME: &'static str = "f32";
}

#[derive(Default)]
struct Dg(Vec<u8>);
impl Dg {
    fn new() -> Self {
        Dg(Vec::new())
    }
    fn u(mut self, x: u64) -> Self {
        self.0.extend_from_slice(&x.to_le_bytes());
        self
    }
    fn us<'a>(mut self, xs: impl IntoIterator<Item = &'a usize>) -> Self {
        let mut n = 0u64;
        for x in xs {
            self.0.extend_from_slice(&(*x as u64).to_le_bytes());
            n += 1;
        }
        self.u(n)
    }
    fn s(mut self, s: &str) -> Self {
        self.0.extend_from_slice(s.as_bytes());
        self.u(s.len() as u64)
    }
    fn b(self, b: bool) -> Self {
        self.u(b as u64)
    }
    fn f<F: Fl>(self, x: F) -> Self {
        self.u(x.bits())
    }
    fn fs<'a, F: Fl>(mut self, xs: impl IntoIterator<Item = &'a F>) -> Self {
        let mut n = 0u64;
        for x in xs {
            self.0.extend_from_slice(&x.bits().to_le_bytes());
            n += 1;
        }
        self.u(n)
    }
    fn of<F: Fl>(self, x: &Option<F>) -> Self {
        match x {
            Some(v) => self.u(1).f(*v),
            None => self.u(0),
        }
    }
    fn shape(self, sh: &[usize]) -> Self {
        self.us(sh.iter())
    }
    fn done(&self) -> Value {
        digest(&self.0)
    }
}
fn a1<F: Fl>(a: &Array1<F>) -> Dg {
    Dg::new().shape(a.shape()).fs(a.iter())
}
fn a2<F: Fl>(a: &Array2<F>) -> Dg {
    Dg::new().shape(a.shape()).fs(a.iter())
}
/// Debug rendering without ndarray's memory-layout annotations (`strides=[..]`, `layout=.. (0x.)`):
/// the layout of an array is not part of its value
fn dbg_text<T: std::fmt::Debug>(v: &T) -> String {
    let mut t = format!("{:?}", v);
    for (open, close) in [(", strides=[", ']'), (", layout=", ')')] {
        while let Some(i) = t.find(open) {
            match t[i + open.len()..].find(close) {
                Some(j) => t.replace_range(i..i + open.len() + j + 1, ""),
                None => break,
            }
        }
    }
    t
}
fn dbg<T: std::fmt::Debug>(v: &T) -> Dg {
    Dg::new().s(&dbg_text(v))
}

/// list of observations (without handle)
struct Ob(Vec<Value>);
impl Ob {
    fn new() -> Self {
        Ob(Vec::new())
    }
    fn push(&mut self, key: &str, cls: &str, st: &str, d: Value) {
        self.0.push(json!({"key": key, "cls": cls, "st": st, "d": d}));
    }
    fn f(&mut self, key: &str, d: Dg) {
        self.push(key, "f", "ok", d.done());
    }
    fn d(&mut self, key: &str, d: Dg) {
        self.push(key, "d", "ok", d.done());
    }
    /// memory layout of a matrix accessor: reported, not part of the property
    fn l(&mut self, key: &str, standard: bool) {
        self.push(key, "l", "ok", Dg::new().b(standard).done());
    }
    /// one digest over a whole observation list (used for re-fit results)
    fn fold(&self) -> Dg {
        let mut g = Dg::new();
        for o in &self.0 {
            if o["cls"] == "l" {
                continue; // memory layout is reported, never compared (neither directly nor inside a folded digest)
            }
            g = g.s(o["key"].as_str().unwrap()).s(o["st"].as_str().unwrap());
            let d = o["d"].as_array().unwrap();
            g = g.u(d[0].as_u64().unwrap()).u(d[1].as_u64().unwrap());
        }
        g
    }
}

/// canonical digest of a serde_json value tree (object keys sorted; numbers as f64 / integer bits)
fn value_digest(v: &Value, g: Dg) -> Dg {
    match v {
        Value::Null => g.u(0),
        Value::Bool(b) => g.u(1).b(*b),
        Value::Number(n) => {
            if let Some(u) = n.as_u64() {
                g.u(2).u(u)
            } else if let Some(i) = n.as_i64() {
                g.u(3).u(i as u64)
            } else {
                g.u(4).u(n.as_f64().unwrap().to_bits())
            }
        }
        Value::String(s) => g.u(5).s(s),
        Value::Array(a) => {
            let mut g = g.u(6).u(a.len() as u64);
            for x in a {
                g = value_digest(x, g);
            }
            g
        }
        Value::Object(m) => {
            let mut keys: Vec<&String> = m.keys().collect();
            keys.sort();
            let mut g = g.u(7).u(keys.len() as u64);
            for k in keys {
                g = g.s(k);
                g = value_digest(&m[k.as_str()], g);
            }
            g
        }
    }
}
/// the value seen through its own Serialize impl as a tree (used as an accessor for private state)
fn tree<T: Serialize>(v: &T) -> Dg {
    match serde_json::to_value(v) {
        Ok(t) => value_digest(&t, Dg::new()),
        Err(e) => Dg::new().s("to_value error").s(&e.to_string()),
    }
}

// ---------------------------------------------------------------------------------------------
// is the JSON text lossless for its floats?  (serde_json without `float_roundtrip` parses long
// decimal expansions with best-effort precision; this checks the format library, not linfa)

fn json_lossless(text: &[u8], ft: &str) -> bool {
    let s = match std::str::from_utf8(text) {
        Ok(s) => s,
        Err(_) => return false,
    };
    let b = s.as_bytes();
    let mut i = 0;
    let mut in_str = false;
    while i < b.len() {
        let c = b[i];
        if in_str {
            if c == b'\\' {
                i += 2;
                continue;
            }
            if c == b'"' {
                in_str = false;
            }
            i += 1;
            continue;
        }
        if c == b'"' {
            in_str = true;
            i += 1;
            continue;
        }
        if c == b'-' || c.is_ascii_digit() {
            let st = i;
            while i < b.len() && (b[i] == b'-' || b[i] == b'+' || b[i] == b'.' || b[i] == b'e' || b[i] == b'E' || b[i].is_ascii_digit()) {
                i += 1;
            }
            let tok = &s[st..i];
            if tok.contains('.') || tok.contains('e') || tok.contains('E') {
                let sj: f64 = match serde_json::from_str(tok) {
                    Ok(v) => v,
                    Err(_) => return false,
                };
                let std64: f64 = match tok.parse() {
                    Ok(v) => v,
                    Err(_) => return false,
                };
                if sj.to_bits() != std64.to_bits() {
                    return false;
                }
                if ft == "f32" {
                    let std32: f32 = match tok.parse() {
                        Ok(v) => v,
                        Err(_) => return false,
                    };
                    if (sj as f32).to_bits() != std32.to_bits() {
                        return false;
                    }
                }
            }
            continue;
        }
        i += 1;
    }
    true
}

// ---------------------------------------------------------------------------------------------
// the history of one value

struct Cfg {
    ty: String,
    ft: String,
    var: usize,
    data: u64,
    wide: bool,
    forder: bool,
    fmts: Vec<String>,
}

fn clean(s: &str) -> String {
    s.chars().filter(|c| c.is_ascii() && !c.is_ascii_control() && *c != '"' && *c != '\\').take(200).collect()
}

fn push_obs(ev: &mut Vec<Value>, h: usize, obs: Result<Ob, String>) {
    match obs {
        Ok(o) => {
            for mut x in o.0 {
                let m = x.as_object_mut().unwrap();
                m.insert("ev".into(), json!("obs"));
                m.insert("h".into(), json!(h));
                ev.push(x);
            }
        }
        Err(msg) => ev.push(json!({"ev": "obs", "h": h, "key": "*", "cls": "d", "st": "panic", "d": digest(msg.as_bytes()), "msg": clean(&msg)})),
    }
}

/// create -> observe -> (round trip -> observe -> eq [-> rearm -> observe])*
fn history<T>(
    ev: &mut Vec<Value>,
    cfg: &Cfg,
    role: &str,
    v0: T,
    c: Codec<T>,
    observe: &dyn Fn(&T) -> Ob,
    eq: Option<&dyn Fn(&T, &T) -> bool>,
    rearm: Option<&dyn Fn(T) -> T>,
) {
    ev.push(json!({"ev": "create", "h": 0, "type": cfg.ty, "role": role, "ft": cfg.ft}));
    push_obs(ev, 0, guarded(|| observe(&v0)));
    let mut later: Vec<T> = Vec::new();
    for (i, fmt) in cfg.fmts.iter().enumerate() {
        let h = i;
        let to = i + 1;
        let bytes = {
            let cur: &T = if i == 0 { &v0 } else { &later[i - 1] };
            guarded(|| (c.enc)(cur, fmt))
        };
        let bytes = match bytes {
            Err(msg) => {
                ev.push(json!({"ev": "panic", "at": "serialize", "msg": msg}));
                return;
            }
            Ok(None) => {
                ev.push(json!({"ev": "rt", "h": h, "to": to, "fmt": fmt, "ser": "unimpl", "de": "na", "lossless": true, "len": 0}));
                return;
            }
            Ok(Some(Err(e))) => {
                ev.push(json!({"ev": "rt", "h": h, "to": to, "fmt": fmt, "ser": "err", "de": "na", "lossless": true, "len": 0, "msg": clean(&e)}));
                return;
            }
            Ok(Some(Ok(b))) => b,
        };
        let lossless = fmt != "json" || json_lossless(&bytes, &cfg.ft);
        let back = guarded(|| (c.dec)(&bytes, fmt));
        let back = match back {
            Err(msg) => {
                ev.push(json!({"ev": "panic", "at": "deserialize", "msg": msg}));
                return;
            }
            Ok(None) => {
                ev.push(json!({"ev": "rt", "h": h, "to": to, "fmt": fmt, "ser": "ok", "de": "unimpl", "lossless": lossless, "len": bytes.len()}));
                return;
            }
            Ok(Some(Err(e))) => {
                ev.push(json!({"ev": "rt", "h": h, "to": to, "fmt": fmt, "ser": "ok", "de": "err", "lossless": lossless, "len": bytes.len(), "msg": clean(&e)}));
                return;
            }
            Ok(Some(Ok(v))) => v,
        };
        ev.push(json!({"ev": "rt", "h": h, "to": to, "fmt": fmt, "ser": "ok", "de": "ok", "lossless": lossless, "len": bytes.len()}));
        push_obs(ev, to, guarded(|| observe(&back)));
        if let Some(eqf) = eq {
            match guarded(|| eqf(&v0, &back)) {
                Ok(r) => ev.push(json!({"ev": "eq", "a": 0, "b": to, "res": r})),
                Err(msg) => ev.push(json!({"ev": "panic", "at": "eq", "msg": msg})),
            }
        }
        let back = if let Some(rf) = rearm {
            let v = rf(back);
            ev.push(json!({"ev": "rearm", "h": to}));
            push_obs(ev, to, guarded(|| observe(&v)));
            v
        } else {
            back
        };
        later.push(back);
    }
}

macro_rules! hist {
    // value with PartialEq
    ($ev:expr, $cfg:expr, $role:expr, $T:ty, $v:expr, $obs:expr, eq) => {{
        let v: $T = $v;
        history::<$T>($ev, $cfg, $role, v, codec!($T), &$obs, Some(&|a: &$T, b: &$T| a == b), None)
    }};
    // value without PartialEq
    ($ev:expr, $cfg:expr, $role:expr, $T:ty, $v:expr, $obs:expr, noeq) => {{
        let v: $T = $v;
        history::<$T>($ev, $cfg, $role, v, codec!($T), &$obs, None, None)
    }};
    // value without PartialEq, with a non-serialisable part that can be set again
    ($ev:expr, $cfg:expr, $role:expr, $T:ty, $v:expr, $obs:expr, rearm $r:expr) => {{
        let v: $T = $v;
        history::<$T>($ev, $cfg, $role, v, codec!($T), &$obs, None, Some(&$r))
    }};
}

// ---------------------------------------------------------------------------------------------
// deterministic data

struct Lcg(u64);
impl Lcg {
    fn new(seed: u64) -> Self {
        Lcg(seed.wrapping_mul(0x9E3779B97F4A7C15).wrapping_add(0x1234567))
    }
    fn next(&mut self) -> u64 {
        self.0 = self.0.wrapping_mul(6364136223846793005).wrapping_add(1442695040888963407);
        self.0 >> 11
    }
    /// uniform in [0,1) with 53 random bits (ugly decimal expansions on purpose)
    fn unit(&mut self) -> f64 {
        (self.next() as f64) / ((1u64 << 53) as f64)
    }
    fn range(&mut self, lo: f64, hi: f64) -> f64 {
        lo + (hi - lo) * self.unit()
    }
}
thread_local! {
    /// number of features of a "wide" case (0 = not wide): every 2- or 3-feature data set / query set of the
    /// case is generated with this many features (and correspondingly more samples) instead
    static WIDE: std::cell::Cell<usize> = std::cell::Cell::new(0);
}
thread_local! {
    /// training data of the case are generated in column-major memory order
    static FORDER: std::cell::Cell<bool> = std::cell::Cell::new(false);
}
fn laid_out<F: Fl>(a: Array2<F>) -> Array2<F> {
    if FORDER.with(|f| f.get()) {
        col_major(&a)
    } else {
        a
    }
}
fn widen(nf: usize) -> usize {
    let w = WIDE.with(|w| w.get());
    if w > 0 && (nf == 2 || nf == 3) {
        w
    } else {
        nf
    }
}
fn cloud<F: Fl>(seed: u64, n: usize, nf: usize, lo: f64, hi: f64) -> Array2<F> {
    let mut g = Lcg::new(seed);
    let (n, nf) = if widen(nf) != nf { (n + 2 * widen(nf), widen(nf)) } else { (n, nf) };
    laid_out(Array2::from_shape_fn((n, nf), |_| F::of(g.range(lo, hi))))
}
/// the same values in column-major memory order
fn col_major<F: Fl>(q: &Array2<F>) -> Array2<F> {
    use ndarray::ShapeBuilder;
    let mut a = Array2::zeros(q.raw_dim().f());
    a.assign(q);
    a
}
/// a buffer whose every second row and column holds q (the rest is junk): `spaced(q).slice(s![..;2, ..;2])` == q
fn spaced<F: Fl>(q: &Array2<F>) -> Array2<F> {
    Array2::from_shape_fn((2 * q.nrows(), 2 * q.ncols()), |(i, j)| if i % 2 == 0 && j % 2 == 0 { q[[i / 2, j / 2]] } else { F::of(777.0) })
}
/// k blobs of m points around separated centres; labels 0..k
fn blobs<F: Fl>(seed: u64, k: usize, m: usize, nf: usize) -> (Array2<F>, Array1<usize>) {
    let mut g = Lcg::new(seed);
    let (m, nf) = if widen(nf) != nf { (m + widen(nf), widen(nf)) } else { (m, nf) };
    let n = k * m;
    let mut y = Array1::zeros(n);
    let x = Array2::from_shape_fn((n, nf), |(i, j)| {
        let c = i % k;
        y[i] = c;
        let centre = (c as f64) * 3.0 * (if j % 2 == 0 { 1.0 } else { -0.5 }) + (j as f64) * 0.25;
        F::of(centre + g.range(-0.9, 0.9))
    });
    (laid_out(x), y)
}
fn reg_data<F: Fl>(seed: u64, n: usize, nf: usize) -> (Array2<F>, Array1<F>) {
    let x: Array2<F> = cloud(seed, n, nf, -1.0, 3.5);
    let mut g = Lcg::new(seed + 7777);
    let w = [1.5, -2.0, 0.75];
    let y = x.outer_iter().map(|r| F::of(r.iter().enumerate().map(|(j, v)| w[j % 3] * v.to64()).sum::<f64>() + 0.5 + 0.3 * g.range(-1.0, 1.0))).collect();
    (x, y)
}
/// boundary values of the float type: zeros of both signs, one, the smallest normal and a subnormal number,
/// the largest finite number, the largest number below one, the machine epsilon
fn edge<F: Fl>(k: usize) -> F {
    match k % 9 {
        0 => F::zero(),
        1 => -F::zero(),
        2 => F::one(),
        3 => F::min_positive_value(),
        4 => F::min_positive_value() / F::of(4.0),
        5 => F::max_value(),
        6 => -F::max_value(),
        7 => F::one() - F::epsilon() / F::of(2.0),
        _ => F::epsilon(),
    }
}
fn rng(seed: u64) -> Xoshiro256Plus {
    Xoshiro256Plus::seed_from_u64(seed)
}
fn err_or<T, E: std::fmt::Display>(r: Result<T, E>, f: impl FnOnce(T) -> Dg) -> Dg {
    match r {
        Ok(v) => f(v).s("ok"),
        Err(e) => Dg::new().s("error").s(&e.to_string()),
    }
}
/// a re-fit: its outcome (model, error, or a panic inside the estimator) is the observation
fn fit_or<T, E: std::fmt::Display>(fit: impl FnOnce() -> Result<T, E>, f: impl FnOnce(T) -> Dg) -> Dg {
    match guarded(fit) {
        Ok(r) => err_or(r, f),
        Err(msg) => Dg::new().s("panic in fit").s(&msg),
    }
}
fn verdict<P: ParamGuard>(p: &P) -> Dg {
    match p.check_ref() {
        Ok(_) => Dg::new().s("valid"),
        Err(e) => Dg::new().s("invalid").s(&e.to_string()),
    }
}


/// every public calling form of `predict` for a model whose PredictInplace is generic over the record storage:
/// reference / view / column-major / strided view / dataset reference / dataset of a view / owned array / owned dataset
macro_rules! pforms {
    ($o:expr, $m:expr, $q:expr, $dg:expr) => {{
        let q = &$q;
        let m = $m;
        let dg = $dg;
        let qf = col_major(q);
        let big = spaced(q);
        $o.f("predict", dg(&m.predict(q)));
        $o.f("predict.view", dg(&m.predict(&q.view())));
        $o.f("predict.colmajor", dg(&m.predict(&qf)));
        $o.f("predict.strided", dg(&m.predict(&big.slice(ndarray::s![..;2, ..;2]))));
        $o.f("predict.dataset", dg(&m.predict(&DatasetBase::from(q.clone()))));
        $o.f("predict.datasetview", dg(&m.predict(&DatasetBase::from(qf.view()))));
        $o.f("predict.owned", dg(m.predict(q.clone()).targets()));
        $o.f("predict.datasetowned", dg(m.predict(DatasetBase::from(qf.clone())).targets()));
    }};
}
/// every public calling form of `transform` of a fitted scaler / whitener: owned array (row- and column-major),
/// dataset of an owned array (both orders), dataset of a view, dataset of a strided view
macro_rules! tforms {
    ($o:expr, $m:expr, $q:expr) => {{
        let q = &$q;
        let m = $m;
        let qf = col_major(q);
        let big = spaced(q);
        $o.f("transform", a2(&m.transform(q.clone())));
        $o.f("transform.colmajor", a2(&m.transform(qf.clone())));
        $o.f("transform.dataset", a2(m.transform(DatasetBase::from(q.clone())).records()));
        $o.f("transform.datasetcolmajor", a2(m.transform(DatasetBase::from(qf.clone())).records()));
        $o.f("transform.datasetview", a2(m.transform(DatasetBase::from(q.view())).records()));
        $o.f("transform.datasetstrided", a2(m.transform(DatasetBase::from(big.slice(ndarray::s![..;2, ..;2]))).records()));
    }};
}

/// observation functions that can only be written for concrete float types (the crates' own
/// `Float` traits are private)
trait Obs {
    fn obs(&self) -> Ob;
}
macro_rules! impl_obs2 {
    ($T:ident < F $(, $C:ty)* >, |$m:ident| $body:block) => {
        impl Obs for $T<f32 $(, $C)*> {
            fn obs(&self) -> Ob {
                #[allow(dead_code)]
                type F = f32;
                let $m = self;
                $body
            }
        }
        impl Obs for $T<f64 $(, $C)*> {
            fn obs(&self) -> Ob {
                #[allow(dead_code)]
                type F = f64;
                let $m = self;
                $body
            }
        }
    };
}

// ---------------------------------------------------------------------------------------------
// catalogue.  Every `t_<crate>` function returns true when it knows the type name.

thread_local! {
    /// data seed of the case being executed: the query points follow it (more inputs with more seeds)
    static QSEED: std::cell::Cell<u64> = std::cell::Cell::new(1);
}
/// the fixed inputs predictions / transforms are observed on (the same for every handle of a case)
fn queries<F: Fl>(nf: usize) -> Array2<F> {
    cloud::<F>(4242 + 31 * QSEED.with(|q| q.get()), 6, nf, -2.0, 5.0).as_standard_layout().to_owned()
}
macro_rules! by_ft {
    ($cfg:expr, $m:ident) => {
        if $cfg.ft == "f32" {
            $m!(f32)
        } else {
            $m!(f64)
        }
    };
}
fn bad_var(cfg: &Cfg) -> ! {
    panic!("harness: type {} has no configuration {}", cfg.ty, cfg.var)
}

// ------------------------------------------------------------------------------- linfa (root)
fn t_root(ev: &mut Vec<Value>, cfg: &Cfg) -> bool {
    use linfa::composing::platt_scaling::PlattError;
    use linfa::Error;
    fn obs_err<E: std::fmt::Display + std::fmt::Debug>(e: &E) -> Ob {
        let mut o = Ob::new();
        o.d("display", Dg::new().s(&e.to_string()));
        o.d("debug", dbg(e));
        o.d("source", Dg::new().b(format!("{:?}", e).contains('(')));
        o
    }
    match cfg.ty.as_str() {
        "Error" => {
            let v = match cfg.var {
                0 => Error::Parameters("bad \"value\" \u{e9}\n".into()),
                1 => Error::Priors("p < 0".into()),
                2 => Error::NotConverged(String::new()),
                3 => Error::NotEnoughSamples,
                4 => Error::MismatchedShapes(3, 18446744073709551615),
                _ => bad_var(cfg),
            };
            hist!(ev, cfg, "plain", Error, v, |e: &Error| obs_err(e), noeq);
        }
        "Error.NdShape" => {
            let v = Error::NdShape(ndarray::ShapeError::from_kind(ndarray::ErrorKind::IncompatibleShape));
            hist!(ev, cfg, "skipped", Error, v, |e: &Error| obs_err(e), noeq);
        }
        // error values the public API itself returns on small inputs (not variants constructed by name), as they
        // are and converted into the error types that wrap linfa::Error (the `?` conversions of the crates)
        "Error.api" => {
            use linfa::prelude::*;
            let produced: Error = match cfg.var % 4 {
                0 => Array1::<linfa::dataset::Pr>::from(vec![]).log_loss(&[]).expect_err("harness: setup: log_loss of nothing succeeded"),
                1 => Array1::from(vec![0usize, 1, 1]).confusion_matrix(Array1::from(vec![0usize, 1])).expect_err("harness: setup: mismatched confusion matrix succeeded"),
                2 => Array1::<f64>::zeros(0).mean_squared_error(&Array1::<f64>::zeros(0)).expect_err("harness: setup: mean squared error of nothing succeeded"),
                _ => linfa_trees::DecisionTree::<f64, usize>::params().min_impurity_decrease(0.0).check().expect_err("harness: setup: invalid tree parameters accepted"),
            };
            match cfg.var / 4 {
                0 => hist!(ev, cfg, "plain", Error, produced, |e: &Error| obs_err(e), noeq),
                1 => hist!(ev, cfg, "plain", PlattError, produced.into(), |e: &PlattError| obs_err(e), noeq),
                2 => hist!(ev, cfg, "plain", linfa_elasticnet::ElasticNetError, produced.into(), |e: &linfa_elasticnet::ElasticNetError| obs_err(e), noeq),
                3 => hist!(ev, cfg, "plain", linfa_ftrl::FtrlError, produced.into(), |e: &linfa_ftrl::FtrlError| obs_err(e), noeq),
                _ => bad_var(cfg),
            }
        }
        // Structural probe of the error enums: every variant the *deserializer* knows is obtained by decoding a
        // crafted index-based document (variant index, zero payload) -- including variants this harness has never
        // heard of -- and must then survive the round trips like any other value.  Configurations 0..9 sweep the
        // outer variant index, 10..17 the variant index of the wrapped linfa::Error.
        "Error.sweep" | "PlattError.sweep" | "ElasticNetError.sweep" | "FtrlError.sweep" => {
            fn crafted(outer: u32, inner: u32) -> Vec<u8> {
                let mut b = Vec::new();
                b.extend_from_slice(&outer.to_le_bytes());
                b.extend_from_slice(&inner.to_le_bytes());
                b.extend_from_slice(&[0u8; 64]);
                b
            }
            fn pick<T: DeserializeOwned + std::fmt::Debug>(var: usize) -> Option<T> {
                let from = |o: u32, i: u32| -> Option<T> { bincode::deserialize::<T>(&crafted(o, i)).ok() };
                if var < 10 {
                    from(var as u32, 0)
                } else {
                    // the outer variant that wraps a linfa::Error: its zero document reads `..(Parameters(""))`
                    let outer = (0..16u32).find(|o| from(*o, 0).map(|v| format!("{:?}", v).contains("(Parameters(\"\"))")).unwrap_or(false))?;
                    from(outer, (var - 10) as u32)
                }
            }
            macro_rules! sweep {
                ($T:ty) => {
                    match pick::<$T>(cfg.var) {
                        Some(v) => hist!(ev, cfg, "plain", $T, v, |e: &$T| obs_err(e), noeq),
                        None => {
                            ev.push(json!({"ev": "create", "h": 0, "type": cfg.ty, "role": "plain", "ft": cfg.ft}));
                            ev.push(json!({"ev": "absent", "index": cfg.var}));
                        }
                    }
                };
            }
            match cfg.ty.as_str() {
                "Error.sweep" => sweep!(Error),
                "PlattError.sweep" => sweep!(PlattError),
                "ElasticNetError.sweep" => sweep!(linfa_elasticnet::ElasticNetError),
                _ => sweep!(linfa_ftrl::FtrlError),
            }
        }
        "PlattError" => {
            let v = match cfg.var {
                0 => PlattError::LineSearchNotConverged,
                1 => PlattError::MaxIterReached,
                2 => PlattError::MaxIterZero,
                3 => PlattError::MinStepNegative(-1.1),
                4 => PlattError::SigmaNegative(-0.3),
                5 => PlattError::LinfaError(Error::MismatchedShapes(2, 5)),
                6 => PlattError::MinStepNegative(-0.0),
                7 => PlattError::SigmaNegative(f32::MAX),
                8 => PlattError::LinfaError(Error::MismatchedShapes(0, 0)),
                _ => bad_var(cfg),
            };
            hist!(ev, cfg, "plain", PlattError, v, |e: &PlattError| obs_err(e), noeq);
        }
        _ => return false,
    }
    true
}

// ------------------------------------------------------------------------------------ linfa-nn
fn obs_dist<F: Fl, D: Distance<F> + std::fmt::Debug>(d: &D) -> Ob {
    let a = Array1::from(vec![F::of(0.3), F::of(-1.7), F::of(2.9)]);
    let b = Array1::from(vec![F::of(1.1), F::of(0.4), F::of(-0.6)]);
    let mut o = Ob::new();
    o.d("debug", dbg(d));
    let dist = d.distance(a.view(), b.view());
    o.f("dist", Dg::new().f(dist));
    o.f("rdist", Dg::new().f(d.rdistance(a.view(), b.view())));
    o.f("conv", Dg::new().f(d.rdist_to_dist(d.dist_to_rdist(dist))).f(d.dist_to_rdist(F::of(1.7))));
    o
}
fn obs_nn<N: NearestNeighbour>(n: &N) -> Ob {
    let batch: Array2<f64> = cloud(77, 14, 2, -3.0, 3.0);
    let q: Array2<f64> = queries(2);
    let mut o = Ob::new();
    o.d("debug", dbg(n));
    match n.from_batch(&batch, L2Dist) {
        Err(e) => o.d("build", Dg::new().s(&e.to_string())),
        Ok(idx) => {
            o.d("build", Dg::new().s("ok"));
            let mut g = Dg::new();
            let mut r = Dg::new();
            for p in q.outer_iter() {
                g = g.us(idx.k_nearest(p, 3).unwrap().iter().map(|x| &x.1));
                let mut w: Vec<usize> = idx.within_range(p, 2.0).unwrap().iter().map(|x| x.1).collect();
                w.sort();
                r = r.us(w.iter());
            }
            o.f("knn", g);
            o.f("range", r);
        }
    }
    o
}
fn t_nn(ev: &mut Vec<Value>, cfg: &Cfg) -> bool {
    match cfg.ty.as_str() {
        "L1Dist" => hist!(ev, cfg, "plain", L1Dist, L1Dist, |d: &L1Dist| obs_dist::<f64, _>(d), eq),
        "L2Dist" => hist!(ev, cfg, "plain", L2Dist, L2Dist, |d: &L2Dist| obs_dist::<f64, _>(d), eq),
        "LInfDist" => hist!(ev, cfg, "plain", LInfDist, LInfDist, |d: &LInfDist| obs_dist::<f64, _>(d), eq),
        "LpDist" => {
            macro_rules! go {
                ($F:ty) => {{
                    let p = match cfg.var {
                        0 => <$F>::of(3.0),
                        1 => <$F>::of(1.3),
                        // the public field set to boundary values: p = 1 (smallest exponent of a norm), 0, the largest float
                        2 => edge::<$F>(2),
                        3 => edge::<$F>(0),
                        4 => edge::<$F>(5),
                        _ => bad_var(cfg),
                    };
                    hist!(ev, cfg, "plain", LpDist<$F>, LpDist(p), |d: &LpDist<$F>| obs_dist::<$F, _>(d), eq)
                }};
            }
            by_ft!(cfg, go)
        }
        "KdTree" => hist!(ev, cfg, "plain", KdTree, KdTree::new(), |n: &KdTree| obs_nn(n), eq),
        "BallTree" => hist!(ev, cfg, "plain", BallTree, BallTree::new(), |n: &BallTree| obs_nn(n), eq),
        "LinearSearch" => hist!(ev, cfg, "plain", LinearSearch, LinearSearch::new(), |n: &LinearSearch| obs_nn(n), eq),
        "CommonNearestNeighbour" => {
            let v = match cfg.var {
                0 => CommonNearestNeighbour::LinearSearch,
                1 => CommonNearestNeighbour::KdTree,
                2 => CommonNearestNeighbour::BallTree,
                _ => bad_var(cfg),
            };
            hist!(ev, cfg, "plain", CommonNearestNeighbour, v, |n: &CommonNearestNeighbour| obs_nn(n), eq)
        }
        _ => return false,
    }
    true
}

// ---------------------------------------------------------------------------- linfa-clustering
mod clu {
    use super::*;
    use linfa_clustering::*;

    pub fn obs_kmeans<F: Fl, D: Distance<F> + std::fmt::Debug>(m: &KMeans<F, D>) -> Ob {
        let q: Array2<F> = queries(2);
        let mut o = Ob::new();
        o.f("centroids", a2(m.centroids()));
        o.f("cluster_count", a1(m.cluster_count()));
        o.f("inertia", Dg::new().f(m.inertia()));
        o.l("layout.centroids", m.centroids().is_standard_layout());
        pforms!(o, m, q, |y: &Array1<usize>| Dg::new().us(y.iter()));
        o.f("transform", a1(&m.transform(&q)));
        o.f("transform.view", a1(&m.transform(&q.view())));
        o.f("transform.colmajor", a1(&m.transform(&col_major(&q))));
        o.f("predict1", Dg::new().u(m.predict(&q.row(1)) as u64));
        o
    }
    /// one batch update of mini-batch k-means; "not yet converged" carries the updated model as well
    pub fn kmeans_step<F: Fl, D: Distance<F> + std::fmt::Debug>(
        vp: &KMeansValidParams<F, Xoshiro256Plus, D>,
        m: Option<KMeans<F, D>>,
        batch: &DatasetBase<Array2<F>, Array1<()>>,
    ) -> Result<KMeans<F, D>, String> {
        use linfa::traits::FitWith;
        match vp.fit_with(m, batch) {
            Ok(m) | Err(IncrKMeansError::NotConverged(m)) => Ok(m),
            Err(e) => Err(e.to_string()),
        }
    }
    /// the model after one further incremental step (restored-then-updated must equal original-then-updated)
    pub fn kmeans_update<F: Fl, D: Distance<F> + std::fmt::Debug + Clone>(m: &KMeans<F, D>, dist: D, batch: &Array2<F>) -> Dg {
        let vp = KMeans::<F, D>::params_with(m.centroids().nrows(), rng(5), dist).check().expect("harness: k-means update parameters");
        match guarded(|| kmeans_step(&vp, Some(m.clone()), &DatasetBase::from(batch.clone()))) {
            Ok(Ok(u)) => {
                let q: Array2<F> = queries(2);
                a2(u.centroids()).fs(u.cluster_count().iter()).f(u.inertia()).fs(u.transform(&q).iter()).us(u.predict(&q).iter())
            }
            Ok(Err(e)) => Dg::new().s("error").s(&e),
            Err(msg) => Dg::new().s("panic in fit_with").s(&msg),
        }
    }
    /// mini-batch fit from scratch over two batches
    pub fn kmeans_incremental<F: Fl, D: Distance<F> + std::fmt::Debug>(vp: &KMeansValidParams<F, Xoshiro256Plus, D>, x: &Array2<F>) -> Result<KMeans<F, D>, String> {
        let h = x.nrows() / 2;
        let b1 = DatasetBase::from(x.slice(ndarray::s![..h, ..]).to_owned());
        let b2 = DatasetBase::from(x.slice(ndarray::s![h.., ..]).to_owned());
        let m = kmeans_step(vp, None, &b1)?;
        kmeans_step(vp, Some(m), &b2)
    }
    pub fn obs_gmm<F: Fl>(m: &GaussianMixtureModel<F>) -> Ob {
        let q: Array2<F> = queries(2);
        let mut o = Ob::new();
        o.f("weights", a1(m.weights()));
        o.f("means", a2(m.means()));
        o.f("covariances", Dg::new().shape(m.covariances().shape()).fs(m.covariances().iter()));
        o.f("precisions", Dg::new().shape(m.precisions().shape()).fs(m.precisions().iter()));
        o.f("centroids", a2(m.centroids()));
        o.l("layout.means", m.means().is_standard_layout());
        o.l("layout.covariances", m.covariances().is_standard_layout() && m.precisions().is_standard_layout());
        pforms!(o, m, q, |y: &Array1<usize>| Dg::new().us(y.iter()));
        o.f("predict_proba", a2(&m.predict_proba(&q)));
        o.f("predict_proba.colmajor", a2(&m.predict_proba(&col_major(&q))));
        o.f("predict_proba.view", a2(&m.predict_proba(&spaced(&q).slice(ndarray::s![..;2, ..;2]))));
        o
    }
    pub fn obs_optics<F: Fl>(a: &OpticsAnalysis<F>) -> Ob {
        let mut o = Ob::new();
        o.d("len", Dg::new().u(a.as_slice().len() as u64));
        o.d("order", Dg::new().us(a.iter().map(|s| s.index()).collect::<Vec<_>>().iter()));
        let mut r = Dg::new();
        let mut c = Dg::new();
        for s in a.iter() {
            r = r.of(s.reachability_distance());
            c = c.of(s.core_distance());
        }
        o.f("reachability", r);
        o.f("core", c);
        o.d("index2", Dg::new().u(a[2].index() as u64));
        o
    }
    fn labels(l: &Array1<Option<usize>>) -> Dg {
        let mut g = Dg::new();
        for x in l.iter() {
            g = match x {
                Some(c) => g.u(1).u(*c as u64),
                None => g.u(0),
            };
        }
        g
    }
    fn data2<F: Fl>(cfg: &Cfg) -> Array2<F> {
        blobs::<F>(1000 + cfg.data, 3, 6, 2).0
    }

    pub fn t(ev: &mut Vec<Value>, cfg: &Cfg) -> bool {
        match cfg.ty.as_str() {
            "Dbscan" => hist!(ev, cfg, "plain", Dbscan, Dbscan, |v: &Dbscan| { let mut o = Ob::new(); o.d("debug", dbg(v)); o.d("tree", tree(v)); o }, eq),
            "Optics" => hist!(ev, cfg, "plain", Optics, Optics, |v: &Optics| { let mut o = Ob::new(); o.d("debug", dbg(v)); o.d("tree", tree(v)); o }, eq),
            "GmmCovarType" => hist!(ev, cfg, "plain", GmmCovarType, GmmCovarType::Full, |v: &GmmCovarType| { let mut o = Ob::new(); o.d("debug", dbg(v)); o.d("tree", tree(v)); o }, eq),
            "GmmInitMethod" => {
                let v = match cfg.var {
                    0 => GmmInitMethod::KMeans,
                    1 => GmmInitMethod::Random,
                    _ => bad_var(cfg),
                };
                hist!(ev, cfg, "plain", GmmInitMethod, v, |v: &GmmInitMethod| { let mut o = Ob::new(); o.d("debug", dbg(v)); o.d("tree", tree(v)); o }, eq)
            }
            "KMeansInit" => {
                macro_rules! go {
                    ($F:ty) => {{
                        let v: KMeansInit<$F> = match cfg.var {
                            0 => KMeansInit::Random,
                            1 => KMeansInit::Precomputed(cloud::<$F>(5 + cfg.data, 3, 2, -1.0, 1.0)),
                            2 => KMeansInit::KMeansPlusPlus,
                            3 => KMeansInit::KMeansPara,
                            4 => KMeansInit::Precomputed(Array2::zeros((0, 2))),
                            _ => bad_var(cfg),
                        };
                        hist!(ev, cfg, "plain", KMeansInit<$F>, v, |v: &KMeansInit<$F>| {
                            let mut o = Ob::new();
                            o.f("debug", dbg(v));
                            o.f("tree", tree(v));
                            if let KMeansInit::Precomputed(c) = v { o.f("centroids", a2(c)); } else { o.f("centroids", Dg::new()); }
                            o
                        }, eq)
                    }};
                }
                by_ft!(cfg, go)
            }
            "KMeansParams" | "KMeansValidParams" => {
                macro_rules! go {
                    ($F:ty) => {{
                        let x = data2::<$F>(cfg);
                        let ds = DatasetBase::from(x.clone());
                        let p = KMeans::<$F, L2Dist>::params_with(3, rng(cfg.data), L2Dist);
                        let p = match cfg.var {
                            0 => p,
                            1 => p.n_runs(2).tolerance(<$F>::of(1e-3)).max_n_iterations(20).init_method(KMeansInit::Random),
                            2 => p.n_runs(1).init_method(KMeansInit::Precomputed(x.select(Axis(0), &[0, 1, 2]))),
                            // user-supplied centroids in column-major order: the parameter set holds the matrix as given
                            3 => p.n_runs(1).max_n_iterations(4).init_method(KMeansInit::Precomputed(col_major(&x.select(Axis(0), &[0, 1, 2])))),
                            // boundary values of the legal ranges
                            4 => p.n_runs(1).max_n_iterations(1).tolerance(edge::<$F>(4)),
                            5 => KMeans::<$F, L2Dist>::params_with(0, rng(cfg.data), L2Dist),
                            6 => p.tolerance(<$F>::of(0.0)),
                            7 => p.n_runs(0),
                            _ => bad_var(cfg),
                        };
                        let incr = |vp: &KMeansValidParams<$F, Xoshiro256Plus, L2Dist>| -> Dg {
                            match guarded(|| kmeans_incremental(vp, &x)) {
                                Ok(Ok(m)) => obs_kmeans(&m).fold().s("ok"),
                                Ok(Err(e)) => Dg::new().s("error").s(&e),
                                Err(msg) => Dg::new().s("panic in fit_with").s(&msg),
                            }
                        };
                        if cfg.ty == "KMeansParams" {
                            type P = KMeansParams<$F, Xoshiro256Plus, L2Dist>;
                            hist!(ev, cfg, "params", P, p, |p: &P| {
                                let mut o = Ob::new();
                                o.f("debug", dbg(p));
                                o.f("tree", tree(p));
                                o.d("validate", verdict(p));
                                o.f("refit", fit_or(|| p.fit(&ds), |m| obs_kmeans(&m).fold()));
                                o.f("refit.incremental", match p.check_ref() { Ok(vp) => incr(vp), Err(e) => Dg::new().s("error").s(&e.to_string()) });
                                o
                            }, eq)
                        } else {
                            type P = KMeansValidParams<$F, Xoshiro256Plus, L2Dist>;
                            let vp = p.check().expect("harness: invalid configuration for a checked parameter set");
                            hist!(ev, cfg, "params", P, vp, |p: &P| {
                                let mut o = Ob::new();
                                o.f("debug", dbg(p));
                                o.f("tree", tree(p));
                                o.d("validate", Dg::new().s("valid"));
                                o.f("refit", fit_or(|| p.fit(&ds), |m| obs_kmeans(&m).fold()));
                                o.f("refit.incremental", incr(p));
                                o
                            }, eq)
                        }
                    }};
                }
                by_ft!(cfg, go)
            }
            "KMeans" => {
                macro_rules! go {
                    ($F:ty) => {{
                        let x = data2::<$F>(cfg);
                        let ds = DatasetBase::from(x.clone());
                        match cfg.var {
                            0 => {
                                let m = KMeans::<$F, L2Dist>::params_with(3, rng(cfg.data), L2Dist).n_runs(2).fit(&ds).expect("harness: setup: kmeans fit");
                                hist!(ev, cfg, "model", KMeans<$F, L2Dist>, m, |m: &KMeans<$F, L2Dist>| { let mut o = obs_kmeans(m); o.f("update", kmeans_update(m, L2Dist, &x)); o }, eq)
                            }
                            // centroids supplied by the user in column-major order: batch fit, mini-batch fit (keeps the
                            // layout of the supplied matrix), and a mini-batch fit from a k-means++ start
                            3 | 4 | 5 => {
                                let p = KMeans::<$F, L2Dist>::params_with(3, rng(cfg.data), L2Dist).n_runs(1).max_n_iterations(4);
                                let p = if cfg.var == 5 { p } else { p.init_method(KMeansInit::Precomputed(col_major(&x.select(Axis(0), &[0, 1, 2])))) };
                                let m = if cfg.var == 3 {
                                    p.fit(&ds).expect("harness: setup: kmeans fit")
                                } else {
                                    kmeans_incremental(&p.check().expect("harness: k-means parameters"), &x).expect("harness: setup: kmeans fit_with")
                                };
                                hist!(ev, cfg, "model", KMeans<$F, L2Dist>, m, |m: &KMeans<$F, L2Dist>| { let mut o = obs_kmeans(m); o.f("update", kmeans_update(m, L2Dist, &x)); o }, eq)
                            }
                            1 => {
                                let m = KMeans::<$F, L1Dist>::params_with(2, rng(cfg.data), L1Dist)
                                    .init_method(KMeansInit::Precomputed(x.select(Axis(0), &[0, 1])))
                                    .max_n_iterations(3)
                                    .fit(&ds)
                                    .expect("harness: setup: kmeans fit");
                                hist!(ev, cfg, "model", KMeans<$F, L1Dist>, m, |m: &KMeans<$F, L1Dist>| { let mut o = obs_kmeans(m); o.f("update", kmeans_update(m, L1Dist, &x)); o }, eq)
                            }
                            2 => {
                                let m = KMeans::<$F, LpDist<$F>>::params_with(3, rng(cfg.data), LpDist(<$F>::of(3.0))).n_runs(1).fit(&ds).expect("harness: setup: kmeans fit");
                                hist!(ev, cfg, "model", KMeans<$F, LpDist<$F>>, m, |m: &KMeans<$F, LpDist<$F>>| { let mut o = obs_kmeans(m); o.f("update", kmeans_update(m, LpDist(<$F>::of(3.0)), &x)); o }, eq)
                            }
                            _ => bad_var(cfg),
                        }
                    }};
                }
                by_ft!(cfg, go)
            }
            "GmmParams" | "GmmValidParams" => {
                macro_rules! go {
                    ($F:ty) => {{
                        let ds = DatasetBase::from(data2::<$F>(cfg));
                        let p = GaussianMixtureModel::<$F>::params_with_rng(2, rng(cfg.data));
                        let p = match cfg.var {
                            0 => p,
                            1 => p.n_runs(2).tolerance(<$F>::of(1e-2)).reg_covariance(<$F>::of(1e-3)).max_n_iterations(15).init_method(GmmInitMethod::Random),
                            2 => p.n_runs(1).max_n_iterations(1).tolerance(edge::<$F>(3)).reg_covariance(edge::<$F>(0)),
                            3 => GaussianMixtureModel::<$F>::params_with_rng(0, rng(cfg.data)),
                            4 => p.tolerance(<$F>::of(-1.0)),
                            _ => bad_var(cfg),
                        };
                        if cfg.ty == "GmmParams" {
                            type P = GmmParams<$F, Xoshiro256Plus>;
                            hist!(ev, cfg, "params", P, p, |p: &P| {
                                let mut o = Ob::new();
                                o.f("debug", dbg(p));
                                o.f("tree", tree(p));
                                o.d("validate", verdict(p));
                                o.f("refit", fit_or(|| p.fit(&ds), |m| obs_gmm(&m).fold()));
                                o
                            }, eq)
                        } else {
                            type P = GmmValidParams<$F, Xoshiro256Plus>;
                            let vp = p.check().expect("harness: invalid configuration for a checked parameter set");
                            hist!(ev, cfg, "params", P, vp, |p: &P| {
                                let mut o = Ob::new();
                                o.f("debug", dbg(p));
                                o.f("accessors", Dg::new().u(p.n_clusters() as u64).s(&format!("{:?}{:?}", p.covariance_type(), p.init_method())).f(p.tolerance()).f(p.reg_covariance()).u(p.n_runs()).u(p.max_n_iterations()));
                                o.d("validate", Dg::new().s("valid"));
                                o.f("refit", fit_or(|| p.fit(&ds), |m| obs_gmm(&m).fold()));
                                o
                            }, eq)
                        }
                    }};
                }
                by_ft!(cfg, go)
            }
            "GaussianMixtureModel" => {
                macro_rules! go {
                    ($F:ty) => {{
                        let ds = DatasetBase::from(data2::<$F>(cfg));
                        let p = GaussianMixtureModel::<$F>::params_with_rng(if cfg.var == 1 { 3 } else { 2 }, rng(cfg.data));
                        let p = match cfg.var {
                            0 => p.tolerance(<$F>::of(1e-4)),
                            1 => p.n_runs(2).init_method(GmmInitMethod::Random).reg_covariance(<$F>::of(1e-2)),
                            _ => bad_var(cfg),
                        };
                        let m = p.fit(&ds).expect("harness: setup: gmm fit");
                        hist!(ev, cfg, "model", GaussianMixtureModel<$F>, m, |m: &GaussianMixtureModel<$F>| obs_gmm(m), eq)
                    }};
                }
                by_ft!(cfg, go)
            }
            "DbscanValidParams" => {
                macro_rules! go {
                    ($F:ty) => {{
                        let x = data2::<$F>(cfg);
                        macro_rules! one {
                            ($D:ty, $N:ty, $p:expr) => {{
                                type P = DbscanValidParams<$F, $D, $N>;
                                let vp: P = $p.check().expect("harness: setup: dbscan params");
                                hist!(ev, cfg, "params", P, vp, |p: &P| {
                                    let mut o = Ob::new();
                                    o.f("debug", dbg(p));
                                    o.f("accessors", Dg::new().f(p.tolerance()).u(p.minimum_points() as u64).s(&format!("{:?}{:?}", p.dist_fn(), p.nn_algo())));
                                    o.d("validate", Dg::new().s("valid"));
                                    o.f("refit", labels(&p.transform(&x)));
                                    o
                                }, eq)
                            }};
                        }
                        match cfg.var {
                            0 => one!(L2Dist, CommonNearestNeighbour, Dbscan::params::<$F>(3).tolerance(<$F>::of(1.1))),
                            1 => one!(L1Dist, BallTree, Dbscan::params_with::<$F, _, _>(2, L1Dist, BallTree::new()).tolerance(<$F>::of(0.7))),
                            2 => one!(LpDist<$F>, CommonNearestNeighbour, Dbscan::params_with::<$F, _, _>(4, LpDist(<$F>::of(3.0)), CommonNearestNeighbour::LinearSearch).tolerance(<$F>::of(1.9))),
                            // the smallest legal values: two points, the smallest positive tolerance
                            3 => one!(L2Dist, CommonNearestNeighbour, Dbscan::params::<$F>(2).tolerance(edge::<$F>(4)).nn_algo(CommonNearestNeighbour::LinearSearch)),
                            _ => bad_var(cfg),
                        }
                    }};
                }
                by_ft!(cfg, go)
            }
            "OpticsParams" | "OpticsValidParams" => {
                macro_rules! go {
                    ($F:ty) => {{
                        let x = data2::<$F>(cfg);
                        let json = cfg.fmts.iter().any(|f| f == "json");
                        macro_rules! one {
                            ($D:ty, $N:ty, $p:expr) => {{
                                if cfg.ty == "OpticsParams" {
                                    type P = OpticsParams<$F, $D, $N>;
                                    let p: P = $p;
                                    hist!(ev, cfg, "params", P, p, |p: &P| {
                                        let mut o = Ob::new();
                                        o.f("debug", dbg(p));
                                        o.f("tree", tree(p));
                                        o.d("validate", verdict(p));
                                        o.f("refit", err_or(p.transform(x.view()), |a| obs_optics(&a).fold()));
                                        o
                                    }, eq)
                                } else {
                                    type P = OpticsValidParams<$F, $D, $N>;
                                    let vp: P = $p.check().expect("harness: invalid configuration for a checked parameter set");
                                    hist!(ev, cfg, "params", P, vp, |p: &P| {
                                        let mut o = Ob::new();
                                        o.f("debug", dbg(p));
                                        o.f("accessors", Dg::new().f(p.tolerance()).u(p.minimum_points() as u64).s(&format!("{:?}{:?}", p.dist_fn(), p.nn_algo())));
                                        o.d("validate", Dg::new().s("valid"));
                                        o.f("refit", obs_optics(&p.transform(x.view())).fold());
                                        o
                                    }, eq)
                                }
                            }};
                        }
                        match cfg.var {
                            // the default tolerance is +infinity, which JSON cannot represent: a finite one is set for JSON chains
                            0 => {
                                if json {
                                    one!(L2Dist, CommonNearestNeighbour, Optics::params::<$F>(3).tolerance(<$F>::of(1e6)))
                                } else {
                                    one!(L2Dist, CommonNearestNeighbour, Optics::params::<$F>(3))
                                }
                            }
                            1 => one!(L1Dist, LinearSearch, Optics::params_with::<$F, _, _>(2, L1Dist, LinearSearch::new()).tolerance(<$F>::of(2.5))),
                            // the smallest legal number of points, the largest finite tolerance
                            2 => one!(L2Dist, CommonNearestNeighbour, Optics::params::<$F>(2).tolerance(edge::<$F>(5))),
                            3 => {
                                if cfg.ty == "OpticsValidParams" {
                                    bad_var(cfg)
                                }
                                one!(L2Dist, CommonNearestNeighbour, Optics::params::<$F>(1).tolerance(<$F>::of(2.5)))
                            }
                            4 => {
                                if cfg.ty == "OpticsValidParams" {
                                    bad_var(cfg)
                                }
                                one!(L2Dist, CommonNearestNeighbour, Optics::params::<$F>(3).tolerance(<$F>::of(-2.5)))
                            }
                            _ => bad_var(cfg),
                        }
                    }};
                }
                by_ft!(cfg, go)
            }
            "OpticsAnalysis" => {
                macro_rules! go {
                    ($F:ty) => {{
                        let x = data2::<$F>(cfg);
                        let a: OpticsAnalysis<$F> = match cfg.var {
                            0 => Optics::params::<$F>(3).tolerance(<$F>::of(2.0)).transform(x.view()).expect("harness: setup: optics"),
                            1 => Optics::params_with::<$F, _, _>(2, L1Dist, CommonNearestNeighbour::BallTree).tolerance(<$F>::of(1.0)).transform(x.view()).expect("harness: setup: optics"),
                            _ => bad_var(cfg),
                        };
                        hist!(ev, cfg, "model", OpticsAnalysis<$F>, a, |a: &OpticsAnalysis<$F>| obs_optics(a), eq)
                    }};
                }
                by_ft!(cfg, go)
            }
            "OpticsSample" => {
                macro_rules! go {
                    ($F:ty) => {{
                        let x = data2::<$F>(cfg);
                        let a: OpticsAnalysis<$F> = Optics::params::<$F>(3).tolerance(<$F>::of(2.0)).transform(x.view()).expect("harness: setup: optics");
                        let s: Sample<$F> = match cfg.var {
                            0 => a[0].clone(),
                            1 => a[a.as_slice().len() - 1].clone(),
                            _ => bad_var(cfg),
                        };
                        hist!(ev, cfg, "model", Sample<$F>, s, |s: &Sample<$F>| {
                            let mut o = Ob::new();
                            o.d("index", Dg::new().u(s.index() as u64));
                            o.f("reachability", Dg::new().of(s.reachability_distance()));
                            o.f("core", Dg::new().of(s.core_distance()));
                            o
                        }, eq)
                    }};
                }
                by_ft!(cfg, go)
            }
            _ => return false,
        }
        true
    }
}

// -------------------------------------------------------------------------------- linfa-linear
mod lin {
    use super::*;
    use linfa_linear::*;

    fn obs_ols<F: Fl>(m: &FittedLinearRegression<F>) -> Ob {
        let q: Array2<F> = queries(3);
        let mut o = Ob::new();
        o.f("params", a1(m.params()));
        o.f("intercept", Dg::new().f(m.intercept()));
        pforms!(o, m, q, |y: &Array1<F>| a1(y));
        o
    }
    impl_obs2!(FittedIsotonicRegression<F>, |m| {
        let q: Array2<F> = queries(1);
        let mut o = Ob::new();
        o.f("debug", dbg(m));
        o.f("tree", tree(m));
        pforms!(o, m, q, |y: &Array1<F>| a1(y));
        o
    });
    impl_obs2!(TweedieRegressor<F>, |m| {
        let q: Array2<F> = queries(3);
        let mut o = Ob::new();
        o.f("coef", a1(&m.coef));
        o.f("intercept", Dg::new().f(m.intercept));
        o.f("debug", dbg(m));
        pforms!(o, m, q, |y: &Array1<F>| a1(y));
        o
    });
    pub fn t(ev: &mut Vec<Value>, cfg: &Cfg) -> bool {
        match cfg.ty.as_str() {
            "Link" => {
                let v = match cfg.var {
                    0 => Link::Identity,
                    1 => Link::Log,
                    2 => Link::Logit,
                    _ => bad_var(cfg),
                };
                hist!(ev, cfg, "plain", Link, v, |l: &Link| {
                    let y = Array1::from(vec![0.2f64, 0.5, 0.9]);
                    let mut o = Ob::new();
                    o.d("debug", dbg(l));
                    o.d("link", a1(&l.link(&y)));
                    o.d("inverse", a1(&l.inverse(&y)));
                    o
                }, eq)
            }
            "LinearRegression" => {
                macro_rules! go {
                    ($F:ty) => {{
                        let (x, y) = reg_data::<$F>(200 + cfg.data, 12, 3);
                        let ds = DatasetBase::new(x, y);
                        let p = match cfg.var {
                            0 => LinearRegression::new(),
                            1 => LinearRegression::new().with_intercept(false),
                            _ => bad_var(cfg),
                        };
                        hist!(ev, cfg, "params", LinearRegression, p, |p: &LinearRegression| {
                            let mut o = Ob::new();
                            o.d("debug", dbg(p));
                            o.d("tree", tree(p));
                            o.d("validate", Dg::new().s("valid"));
                            o.f("refit", fit_or(|| p.fit(&ds), |m| obs_ols(&m).fold()));
                            o
                        }, eq)
                    }};
                }
                by_ft!(cfg, go)
            }
            "FittedLinearRegression" => {
                macro_rules! go {
                    ($F:ty) => {{
                        let (x, y) = reg_data::<$F>(200 + cfg.data, 12, 3);
                        let ds = DatasetBase::new(x, y);
                        let m = LinearRegression::new().with_intercept(cfg.var == 0).fit(&ds).expect("harness: setup: ols fit");
                        if cfg.var > 1 {
                            bad_var(cfg)
                        }
                        hist!(ev, cfg, "model", FittedLinearRegression<$F>, m, |m: &FittedLinearRegression<$F>| obs_ols(m), eq)
                    }};
                }
                by_ft!(cfg, go)
            }
            "FittedIsotonicRegression" => {
                macro_rules! go {
                    ($F:ty) => {{
                        let x: Array2<$F> = cloud(400 + cfg.data, 12, 1, -1.0, 3.5);
                        let mut g = Lcg::new(500 + cfg.data);
                        let y: Array1<$F> = x.outer_iter().map(|r| r[0] * <$F>::of(1.25) + <$F>::of(0.8 * g.range(-1.0, 1.0))).collect();
                        let ds = DatasetBase::new(x, y);
                        if cfg.var > 0 {
                            bad_var(cfg)
                        }
                        let m = IsotonicRegression::new().fit(&ds).expect("harness: setup: isotonic fit");
                        hist!(ev, cfg, "model", FittedIsotonicRegression<$F>, m, |m: &FittedIsotonicRegression<$F>| m.obs(), eq)
                    }};
                }
                by_ft!(cfg, go)
            }
            "TweedieRegressorValidParams" | "TweedieRegressor" => {
                macro_rules! go {
                    ($F:ty) => {{
                        let x: Array2<$F> = cloud(600 + cfg.data, 14, 3, -1.0, 2.5);
                        // many features: keep the linear predictor (and its exponential) in a moderate range
                        let x = if cfg.wide { x.mapv(|v| v * <$F>::of(0.25)) } else { x };
                        let mut g = Lcg::new(700 + cfg.data);
                        let y: Array1<$F> = x.outer_iter().map(|r| <$F>::of((0.3 * r[0].to64() - 0.2 * r[1].to64() + 0.5).exp() + 0.25 * (g.unit() + 0.1))).collect();
                        let ds = DatasetBase::new(x, y);
                        let p = TweedieRegressor::<$F>::params();
                        let p = match cfg.var {
                            0 => p.power(<$F>::of(0.0)).alpha(<$F>::of(0.1)),
                            1 | 4 => p.power(<$F>::of(1.0)).alpha(<$F>::of(0.0)).max_iter(60).tol(<$F>::of(1e-5)),
                            2 | 3 => p.power(<$F>::of(2.0)).alpha(<$F>::of(0.01)).link(Link::Log).fit_intercept(false),
                            _ => bad_var(cfg),
                        };
                        if cfg.ty == "TweedieRegressor" {
                            let mut m = p.fit(&ds).expect("harness: setup: tweedie fit");
                            // public fields moved to boundary values after the fit
                            if cfg.var == 3 {
                                m.intercept = edge::<$F>(1);
                                m.coef[0] = edge::<$F>(0);
                                m.coef[1] = edge::<$F>(4);
                            } else if cfg.var == 4 {
                                m.intercept = edge::<$F>(2);
                                m.coef[0] = edge::<$F>(5);
                                m.coef[1] = edge::<$F>(6);
                            }
                            hist!(ev, cfg, "model", TweedieRegressor<$F>, m, |m: &TweedieRegressor<$F>| m.obs(), eq)
                        } else {
                            type P = TweedieRegressorValidParams<$F>;
                            let vp: P = p.check().expect("harness: setup: tweedie params");
                            hist!(ev, cfg, "params", P, vp, |p: &P| {
                                let mut o = Ob::new();
                                o.f("debug", dbg(p));
                                o.f("accessors", Dg::new().f(p.alpha()).b(p.fit_intercept()).f(p.power()).s(&format!("{:?}", p.link())).u(p.max_iter() as u64).f(p.tol()));
                                o.d("validate", Dg::new().s("valid"));
                                o.f("refit", fit_or(|| p.fit(&ds), |m| m.obs().fold()));
                                o
                            }, eq)
                        }
                    }};
                }
                by_ft!(cfg, go)
            }
            _ => return false,
        }
        true
    }
}

// ---------------------------------------------------------------------------- linfa-elasticnet
mod enet {
    use super::*;
    use linfa_elasticnet::*;

    fn obs_en<F: Fl>(m: &ElasticNet<F>) -> Ob {
        let q: Array2<F> = queries(3);
        let mut o = Ob::new();
        o.f("hyperplane", a1(m.hyperplane()));
        o.f("intercept", Dg::new().f(m.intercept()));
        o.f("duality_gap", Dg::new().f(m.duality_gap()));
        o.d("n_steps", Dg::new().u(m.n_steps() as u64));
        o.f("z_score", err_or(m.z_score(), |z| a1(&z)));
        o.f("confidence", err_or(m.confidence_95th(), |c| { let mut g = Dg::new(); for (a, b) in c.iter() { g = g.f(*a).f(*b); } g }));
        o.f("tree", tree(m));
        pforms!(o, m, q, |y: &Array1<F>| a1(y));
        o
    }
    fn obs_mt<F: Fl>(m: &MultiTaskElasticNet<F>) -> Ob {
        let q: Array2<F> = queries(3);
        let mut o = Ob::new();
        o.f("hyperplane", a2(m.hyperplane()));
        o.f("intercept", a1(m.intercept()));
        o.f("duality_gap", Dg::new().f(m.duality_gap()));
        o.d("n_steps", Dg::new().u(m.n_steps() as u64));
        // z_score()/confidence_95th() of the multi-task model panic in the pinned tree whenever
        // n_tasks != n_features (broadcast of the variance vector): not a persistence question, not called
        o.f("tree", tree(m));
        o.l("layout.hyperplane", m.hyperplane().is_standard_layout());
        pforms!(o, m, q, |y: &Array2<F>| a2(y));
        o
    }
    pub fn t(ev: &mut Vec<Value>, cfg: &Cfg) -> bool {
        match cfg.ty.as_str() {
            "ElasticNetError" => {
                let v = match cfg.var {
                    0 => ElasticNetError::NotEnoughSamples,
                    1 => ElasticNetError::IllConditioned,
                    2 => ElasticNetError::InvalidL1Ratio(1.5),
                    3 => ElasticNetError::InvalidPenalty(-0.1),
                    4 => ElasticNetError::InvalidTolerance(-1e-3),
                    5 => ElasticNetError::IncorrectTargetShape,
                    6 => ElasticNetError::BaseCrate(linfa::Error::Parameters("p".into())),
                    7 => ElasticNetError::BaseCrate(linfa::Error::NotEnoughSamples),
                    8 => ElasticNetError::InvalidL1Ratio(1.0),
                    9 => ElasticNetError::InvalidPenalty(-0.0),
                    10 => ElasticNetError::InvalidTolerance(f32::MIN_POSITIVE / 4.0),
                    _ => bad_var(cfg),
                };
                hist!(ev, cfg, "plain", ElasticNetError, v, |e: &ElasticNetError| {
                    let mut o = Ob::new();
                    o.d("display", Dg::new().s(&e.to_string()));
                    o.d("debug", dbg(e));
                    o.d("tree", tree(e));
                    o
                }, noeq)
            }
            "ElasticNetValidParams" | "ElasticNet" => {
                macro_rules! go {
                    ($F:ty) => {{
                        let few = cfg.ty == "ElasticNet" && cfg.var == 3;
                        let (x, y) = reg_data::<$F>(200 + cfg.data, if few { 3 } else { 12 }, 3);
                        let ds = DatasetBase::new(x, y);
                        let p = ElasticNet::<$F>::params();
                        let p = match cfg.var {
                            0 => p.penalty(<$F>::of(0.05)).l1_ratio(<$F>::of(0.0)),
                            1 => p.penalty(<$F>::of(0.1)).l1_ratio(<$F>::of(0.5)).max_iterations(300).tolerance(<$F>::of(1e-5)),
                            2 => p.penalty(<$F>::of(0.3)).l1_ratio(<$F>::of(1.0)).with_intercept(false),
                            3 => p.penalty(<$F>::of(0.2)),
                            4 => p.penalty(edge::<$F>(0)).l1_ratio(edge::<$F>(2)).tolerance(edge::<$F>(0)).max_iterations(1),
                            _ => bad_var(cfg),
                        };
                        if cfg.ty == "ElasticNet" {
                            let m = p.fit(&ds).expect("harness: setup: elastic net fit");
                            hist!(ev, cfg, "model", ElasticNet<$F>, m, |m: &ElasticNet<$F>| obs_en(m), noeq)
                        } else {
                            type P = ElasticNetValidParams<$F>;
                            let vp: P = p.check().expect("harness: setup: elastic net params");
                            hist!(ev, cfg, "params", P, vp, |p: &P| {
                                let mut o = Ob::new();
                                o.f("debug", dbg(p));
                                o.f("accessors", Dg::new().f(p.penalty()).f(p.l1_ratio()).b(p.with_intercept()).u(p.max_iterations() as u64).f(p.tolerance()));
                                o.d("validate", Dg::new().s("valid"));
                                o.f("refit", fit_or(|| p.fit(&ds), |m| obs_en(&m).fold()));
                                o
                            }, eq)
                        }
                    }};
                }
                by_ft!(cfg, go)
            }
            "MultiTaskElasticNetValidParams" | "MultiTaskElasticNet" => {
                macro_rules! go {
                    ($F:ty) => {{
                        let (x, y) = reg_data::<$F>(200 + cfg.data, 12, 3);
                        let y2 = Array2::from_shape_fn((y.len(), 2), |(i, t)| y[i] * <$F>::of(t as f64 + 1.0) - x[[i, 0]] * <$F>::of(t as f64));
                        let ds = DatasetBase::new(x, y2);
                        let p = MultiTaskElasticNet::<$F>::params();
                        let p = match cfg.var {
                            0 => p.penalty(<$F>::of(0.1)).l1_ratio(<$F>::of(0.5)),
                            1 => p.penalty(<$F>::of(0.05)).l1_ratio(<$F>::of(0.9)).with_intercept(false).max_iterations(200),
                            _ => bad_var(cfg),
                        };
                        if cfg.ty == "MultiTaskElasticNet" {
                            let m = p.fit(&ds).expect("harness: setup: multi-task elastic net fit");
                            hist!(ev, cfg, "model", MultiTaskElasticNet<$F>, m, |m: &MultiTaskElasticNet<$F>| obs_mt(m), noeq)
                        } else {
                            type P = MultiTaskElasticNetValidParams<$F>;
                            let vp: P = p.check().expect("harness: setup: elastic net params");
                            hist!(ev, cfg, "params", P, vp, |p: &P| {
                                let mut o = Ob::new();
                                o.f("debug", dbg(p));
                                o.f("accessors", Dg::new().f(p.penalty()).f(p.l1_ratio()).b(p.with_intercept()).u(p.max_iterations() as u64).f(p.tolerance()));
                                o.d("validate", Dg::new().s("valid"));
                                o.f("refit", fit_or(|| p.fit(&ds), |m| obs_mt(&m).fold()));
                                o
                            }, eq)
                        }
                    }};
                }
                by_ft!(cfg, go)
            }
            _ => return false,
        }
        true
    }
}

// ------------------------------------------------------------------------------ linfa-logistic
mod logi {
    use super::*;
    use linfa_logistic::*;

    macro_rules! bin_obs {
        ($C:ty) => {
            impl_obs2!(FittedLogisticRegression<F, $C>, |m| {
                let q: Array2<F> = queries(2);
                let mut o = Ob::new();
                o.f("params", a1(m.params()));
                o.f("intercept", Dg::new().f(m.intercept()));
                o.f("labels", dbg(m.labels()));
                o.f("debug", dbg(m));
                pforms!(o, m, q, |y: &Array1<$C>| dbg(y));
                o.f("probabilities", a1(&m.predict_probabilities(&q)));
                o.f("probabilities.colmajor", a1(&m.predict_probabilities(&col_major(&q))));
                o.f("probabilities.view", a1(&m.predict_probabilities(&spaced(&q).slice(ndarray::s![..;2, ..;2]))));
                o
            });
        };
    }
    bin_obs!(usize);
    bin_obs!(String);
    impl_obs2!(MultiFittedLogisticRegression<F, usize>, |m| {
        let q: Array2<F> = queries(2);
        let mut o = Ob::new();
        o.f("params", a2(m.params()));
        o.f("intercept", a1(m.intercept()));
        o.d("classes", dbg(&m.classes()));
        o.l("layout.params", m.params().is_standard_layout());
        pforms!(o, m, q, |y: &Array1<usize>| dbg(y));
        o.f("probabilities", a2(&m.predict_probabilities(&q)));
        o.f("probabilities.colmajor", a2(&m.predict_probabilities(&col_major(&q))));
        o.f("probabilities.view", a2(&m.predict_probabilities(&spaced(&q).slice(ndarray::s![..;2, ..;2]))));
        o
    });
    pub fn t(ev: &mut Vec<Value>, cfg: &Cfg) -> bool {
        match cfg.ty.as_str() {
            "LogisticRegressionParams" | "LogisticRegressionValidParams" | "FittedLogisticRegression" | "BinaryClassLabels" | "ClassLabel" => {
                macro_rules! go {
                    ($F:ty) => {{
                        let (x, y) = blobs::<$F>(1100 + cfg.data, 2, 8, 2);
                        let ys = y.mapv(|l| if l == 1 { "pos".to_string() } else { "neg".to_string() });
                        let y = y.mapv(|l| if l == 1 { 7usize } else { 3usize });
                        let ds = DatasetBase::new(x.clone(), y);
                        let dss = DatasetBase::new(x.clone(), ys);
                        let p = LogisticRegression::<$F>::default();
                        // fitted models and labels: configurations 4.. are post-fit changes of configuration 0
                        let fitted = ["FittedLogisticRegression", "BinaryClassLabels", "ClassLabel"].contains(&cfg.ty.as_str());
                        let p = match if fitted && cfg.var >= 4 { 0 } else { cfg.var } {
                            0 => p.alpha(<$F>::of(0.5)).max_iterations(200),
                            1 => p.alpha(<$F>::of(0.1)).with_intercept(false).gradient_tolerance(<$F>::of(1e-6)).max_iterations(150),
                            2 => p.alpha(<$F>::of(1.5)).initial_params(Array1::from_shape_fn(x.ncols() + 1, |i| <$F>::of(0.1 * (i as f64 + 1.0) * if i % 2 == 1 { -1.0 } else { 1.0 }))),
                            // boundary values of the legal ranges: alpha = 0, the smallest positive gradient tolerance
                            3 => p.alpha(edge::<$F>(0)).gradient_tolerance(edge::<$F>(4)).max_iterations(30),
                            4 => p.alpha(<$F>::of(-1.0)),
                            5 => p.gradient_tolerance(<$F>::of(0.0)),
                            _ => bad_var(cfg),
                        };
                        match cfg.ty.as_str() {
                            "LogisticRegressionParams" => {
                                type P = LogisticRegression<$F>;
                                hist!(ev, cfg, "params", P, p, |p: &P| {
                                    let mut o = Ob::new();
                                    o.f("debug", dbg(p));
                                    o.f("tree", tree(p));
                                    o.d("validate", verdict(p));
                                    o.f("refit", fit_or(|| p.fit(&ds), |m| m.obs().fold()));
                                    o
                                }, eq)
                            }
                            "LogisticRegressionValidParams" => {
                                type P = ValidLogisticRegression<$F>;
                                let vp: P = p.check().expect("harness: invalid configuration for a checked parameter set");
                                hist!(ev, cfg, "params", P, vp, |p: &P| {
                                    let mut o = Ob::new();
                                    o.f("debug", dbg(p));
                                    o.f("tree", tree(p));
                                    o.d("validate", Dg::new().s("valid"));
                                    o.f("refit", fit_or(|| p.fit(&ds), |m| m.obs().fold()));
                                    o
                                }, eq)
                            }
                            "FittedLogisticRegression" => {
                                if cfg.var == 2 {
                                    let m = p.fit(&dss).expect("harness: setup: logistic fit").set_threshold(<$F>::of(0.3));
                                    hist!(ev, cfg, "model", FittedLogisticRegression<$F, String>, m, |m: &FittedLogisticRegression<$F, String>| m.obs(), eq)
                                } else {
                                    let m = p.fit(&ds).expect("harness: setup: logistic fit");
                                    // the post-fit setter at the ends of its closed interval [0, 1] and just inside them
                                    let m = match cfg.var {
                                        0 | 1 | 3 => m,
                                        4 => m.set_threshold(edge::<$F>(0)),
                                        5 => m.set_threshold(edge::<$F>(2)),
                                        6 => m.set_threshold(edge::<$F>(7)),
                                        7 => m.set_threshold(edge::<$F>(4)),
                                        8 => m.set_threshold(edge::<$F>(1)),
                                        _ => bad_var(cfg),
                                    };
                                    hist!(ev, cfg, "model", FittedLogisticRegression<$F, usize>, m, |m: &FittedLogisticRegression<$F, usize>| m.obs(), eq)
                                }
                            }
                            "BinaryClassLabels" => {
                                let m = p.fit(&dss).expect("harness: setup: logistic fit");
                                type T = BinaryClassLabels<$F, String>;
                                let mut l0 = m.labels().clone();
                                // public fields at boundary values: empty / non-ASCII class names, labels 0, -0, 1, largest float
                                match cfg.var {
                                    0..=3 => {}
                                    4 => {
                                        l0.pos.class = String::new();
                                        l0.pos.label = edge::<$F>(2);
                                        l0.neg.class = "\u{0}\u{10ffff} \"q\"".to_string();
                                        l0.neg.label = edge::<$F>(1);
                                    }
                                    5 => {
                                        l0.pos.label = edge::<$F>(5);
                                        l0.neg.label = edge::<$F>(4);
                                    }
                                    _ => bad_var(cfg),
                                }
                                hist!(ev, cfg, "model", T, l0, |l: &T| {
                                    let mut o = Ob::new();
                                    o.d("pos.class", Dg::new().s(&l.pos.class));
                                    o.f("pos.label", Dg::new().f(l.pos.label));
                                    o.d("neg.class", Dg::new().s(&l.neg.class));
                                    o.f("neg.label", Dg::new().f(l.neg.label));
                                    o
                                }, eq)
                            }
                            _ => {
                                let m = p.fit(&ds).expect("harness: setup: logistic fit");
                                type T = ClassLabel<$F, usize>;
                                let mut l0 = m.labels().neg.clone();
                                match cfg.var {
                                    0..=3 => {}
                                    4 => {
                                        l0.class = usize::MAX;
                                        l0.label = edge::<$F>(0);
                                    }
                                    5 => {
                                        l0.class = 0;
                                        l0.label = edge::<$F>(6);
                                    }
                                    _ => bad_var(cfg),
                                }
                                hist!(ev, cfg, "model", T, l0, |l: &T| {
                                    let mut o = Ob::new();
                                    o.d("class", Dg::new().u(l.class as u64));
                                    o.f("label", Dg::new().f(l.label));
                                    o.f("debug", dbg(l));
                                    o
                                }, eq)
                            }
                        }
                    }};
                }
                by_ft!(cfg, go)
            }
            "MultiLogisticRegressionParams" | "MultiLogisticRegressionValidParams" | "MultiFittedLogisticRegression" => {
                macro_rules! go {
                    ($F:ty) => {{
                        let (x, y) = blobs::<$F>(1200 + cfg.data, 3, 6, 2);
                        let nfeat = x.ncols();
                        let ds = DatasetBase::new(x, y.mapv(|l| 10 + l));
                        let p = MultiLogisticRegression::<$F>::default();
                        let p = match cfg.var {
                            0 => p.alpha(<$F>::of(0.5)).max_iterations(200),
                            1 => p.alpha(<$F>::of(0.2)).with_intercept(false).initial_params(Array2::from_shape_fn((nfeat, 3), |(i, j)| <$F>::of(0.1 * (i as f64) - 0.05 * (j as f64)))),
                            // user-supplied start in column-major order
                            2 => p.alpha(<$F>::of(0.3)).max_iterations(150).initial_params(col_major(&Array2::from_shape_fn((nfeat + 1, 3), |(i, j)| <$F>::of(0.07 * (i as f64) - 0.11 * (j as f64))))),
                            3 => p.alpha(<$F>::of(-0.5)),
                            _ => bad_var(cfg),
                        };
                        match cfg.ty.as_str() {
                            "MultiLogisticRegressionParams" => {
                                type P = MultiLogisticRegression<$F>;
                                hist!(ev, cfg, "params", P, p, |p: &P| {
                                    let mut o = Ob::new();
                                    o.f("debug", dbg(p));
                                    o.f("tree", tree(p));
                                    o.d("validate", verdict(p));
                                    o.f("refit", fit_or(|| p.fit(&ds), |m| m.obs().fold()));
                                    o
                                }, eq)
                            }
                            "MultiLogisticRegressionValidParams" => {
                                type P = ValidMultiLogisticRegression<$F>;
                                let vp: P = p.check().expect("harness: invalid configuration for a checked parameter set");
                                hist!(ev, cfg, "params", P, vp, |p: &P| {
                                    let mut o = Ob::new();
                                    o.f("debug", dbg(p));
                                    o.f("tree", tree(p));
                                    o.d("validate", Dg::new().s("valid"));
                                    o.f("refit", fit_or(|| p.fit(&ds), |m| m.obs().fold()));
                                    o
                                }, eq)
                            }
                            _ => {
                                let m = p.fit(&ds).expect("harness: setup: multi logistic fit");
                                hist!(ev, cfg, "model", MultiFittedLogisticRegression<$F, usize>, m, |m: &MultiFittedLogisticRegression<$F, usize>| m.obs(), eq)
                            }
                        }
                    }};
                }
                by_ft!(cfg, go)
            }
            _ => return false,
        }
        true
    }
}

// --------------------------------------------------------------------- linfa-svm, linfa-kernel
mod svm {
    use super::*;
    use linfa::dataset::Pr;
    use linfa_kernel::{Kernel, KernelMethod, KernelType};
    use linfa_svm::{ExitReason, SeparatingHyperplane, Svm};

    fn svm_common<F: Fl, T>(m: &Svm<F, T>, o: &mut Ob)
    where
        Svm<F, T>: std::fmt::Debug,
    {
        let q: Array2<F> = queries(2);
        o.f("alpha", Dg::new().fs(m.alpha.iter()));
        o.f("rho", Dg::new().f(m.rho));
        o.f("nsupport", Dg::new().u(m.nsupport() as u64));
        o.f("debug", dbg(m));
        let mut g = Dg::new();
        for r in q.outer_iter() {
            g = g.f(m.weighted_sum(&r));
        }
        o.f("weighted_sum", g);
    }
    impl_obs2!(Svm<F, bool>, |m| {
        let q: Array2<F> = queries(2);
        let mut o = Ob::new();
        svm_common(m, &mut o);
        pforms!(o, m, q, |y: &Array1<bool>| dbg(y));
        o.f("predict1", Dg::new().b(m.predict(q.row(2))));
        o
    });
    impl_obs2!(Svm<F, Pr>, |m| {
        let q: Array2<F> = queries(2);
        let mut o = Ob::new();
        svm_common(m, &mut o);
        pforms!(o, m, q, |y: &Array1<Pr>| Dg::new().fs(y.iter().map(|x| **x).collect::<Vec<f32>>().iter()));
        o
    });
    macro_rules! svr_obs {
        ($F:ty) => {
            impl Obs for Svm<$F, $F> {
                fn obs(&self) -> Ob {
                    let m = self;
                    let q: Array2<$F> = queries(2);
                    let mut o = Ob::new();
                    svm_common(m, &mut o);
                    pforms!(o, m, q, |y: &Array1<$F>| a1(y));
                    o.f("predict1", Dg::new().f(m.predict(q.row(2))));
                    o
                }
            }
        };
    }
    svr_obs!(f32);
    svr_obs!(f64);
    fn obs_kernel<F: Fl>(k: &Kernel<F>) -> Ob {
        let n = k.size();
        let rhs: Array2<F> = cloud(31, n, 4, -1.0, 1.0);
        let mut o = Ob::new();
        o.d("size", Dg::new().u(n as u64).b(k.is_linear()).b(k.inner.is_dense_inner()));
        o.f("method", dbg(&k.method));
        if let linfa_kernel::KernelInner::Dense(a) = &k.inner {
            o.l("layout.inner", a.is_standard_layout());
        }
        o.f("dot", a2(&k.dot(&rhs.view())));
        o.f("dot.colmajor", a2(&k.dot(&col_major(&rhs).view())));
        o.f("sum", a1(&k.sum()));
        o.f("column", Dg::new().fs(k.column(1).iter()).fs(k.column(n - 1).iter()));
        o.f("upper", Dg::new().fs(k.to_upper_triangle().iter()));
        o.f("diagonal", a1(&k.diagonal()));
        o
    }
    trait DenseInner {
        fn is_dense_inner(&self) -> bool;
    }
    impl<K1: linfa_kernel::Inner, K2: linfa_kernel::Inner> DenseInner for linfa_kernel::KernelInner<K1, K2> {
        fn is_dense_inner(&self) -> bool {
            matches!(self, linfa_kernel::KernelInner::Dense(_))
        }
    }
    pub fn t(ev: &mut Vec<Value>, cfg: &Cfg) -> bool {
        match cfg.ty.as_str() {
            "ExitReason" => {
                let v = match cfg.var {
                    0 => ExitReason::ReachedThreshold,
                    1 => ExitReason::ReachedIterations,
                    _ => bad_var(cfg),
                };
                hist!(ev, cfg, "plain", ExitReason, v, |v: &ExitReason| { let mut o = Ob::new(); o.d("debug", dbg(v)); o.d("tree", tree(v)); o }, eq)
            }
            "SeparatingHyperplane" => {
                macro_rules! go {
                    ($F:ty) => {{
                        let v: SeparatingHyperplane<$F> = match cfg.var {
                            0 => SeparatingHyperplane::Linear(cloud::<$F>(9 + cfg.data, 1, 4, -1.0, 1.0).row(0).to_owned()),
                            1 => SeparatingHyperplane::WeightedCombination(cloud::<$F>(10 + cfg.data, 3, 2, -1.0, 1.0)),
                            2 => SeparatingHyperplane::Linear(Array1::zeros(0)),
                            3 => SeparatingHyperplane::WeightedCombination(Array2::zeros((0, 4))),
                            4 => SeparatingHyperplane::Linear(Array1::from(vec![edge::<$F>(1), edge::<$F>(4), edge::<$F>(5), edge::<$F>(6)])),
                            _ => bad_var(cfg),
                        };
                        hist!(ev, cfg, "plain", SeparatingHyperplane<$F>, v, |v: &SeparatingHyperplane<$F>| {
                            let mut o = Ob::new();
                            o.f("debug", dbg(v));
                            o.f("tree", tree(v));
                            match v {
                                SeparatingHyperplane::Linear(a) => o.f("data", a1(a)),
                                SeparatingHyperplane::WeightedCombination(a) => o.f("data", a2(a)),
                            }
                            o
                        }, eq)
                    }};
                }
                by_ft!(cfg, go)
            }
            "KernelMethod" => {
                macro_rules! go {
                    ($F:ty) => {{
                        let v: KernelMethod<$F> = match cfg.var {
                            0 => KernelMethod::Gaussian(<$F>::of(0.7)),
                            1 => KernelMethod::Linear,
                            2 => KernelMethod::Polynomial(<$F>::of(1.1), <$F>::of(3.0)),
                            3 => KernelMethod::Gaussian(edge::<$F>(3)),
                            4 => KernelMethod::Polynomial(edge::<$F>(0), edge::<$F>(0)),
                            5 => KernelMethod::Polynomial(edge::<$F>(1), edge::<$F>(2)),
                            6 => KernelMethod::Gaussian(edge::<$F>(5)),
                            _ => bad_var(cfg),
                        };
                        hist!(ev, cfg, "plain", KernelMethod<$F>, v, |v: &KernelMethod<$F>| {
                            let q: Array2<$F> = queries(3);
                            let mut o = Ob::new();
                            o.f("debug", dbg(v));
                            o.d("is_linear", Dg::new().b(v.is_linear()));
                            o.f("distance", Dg::new().f(v.distance(q.row(0), q.row(1))).f(v.distance(q.row(2), q.row(3))));
                            o
                        }, eq)
                    }};
                }
                by_ft!(cfg, go)
            }
            "Kernel" => {
                macro_rules! go {
                    ($F:ty) => {{
                        let x: Array2<$F> = cloud(40 + cfg.data, 7, 2, -1.5, 1.5);
                        let p = Kernel::<$F>::params();
                        let p = match cfg.var {
                            0 => p.method(KernelMethod::Gaussian(<$F>::of(1.3))),
                            1 => p.method(KernelMethod::Polynomial(<$F>::of(0.5), <$F>::of(2.0))),
                            2 => p.method(KernelMethod::Gaussian(<$F>::of(0.9))).kind(KernelType::Sparse(3)),
                            3 | 5 => p.method(KernelMethod::Linear).kind(KernelType::Sparse(2)).nn_algo(CommonNearestNeighbour::BallTree),
                            4 | 6 => p.method(KernelMethod::Gaussian(<$F>::of(1.1))),
                            _ => bad_var(cfg),
                        };
                        // the k-d tree index documents that it needs contiguous points
                        let x = if cfg.var == 2 { x.as_standard_layout().to_owned() } else { x };
                        let k: Kernel<$F> = p.transform(&x);
                        // kernels assembled by the user from a matrix in another storage order (the fields are public)
                        let k: Kernel<$F> = match (cfg.var, k.inner) {
                            (4, linfa_kernel::KernelInner::Dense(a)) => Kernel { inner: linfa_kernel::KernelInner::Dense(col_major(&a)), method: k.method },
                            (5, linfa_kernel::KernelInner::Sparse(a)) => Kernel { inner: linfa_kernel::KernelInner::Sparse(a.to_csc()), method: k.method },
                            // the public `method` field replaced after construction, with boundary parameters
                            (6, inner) => Kernel { inner, method: KernelMethod::Polynomial(edge::<$F>(1), edge::<$F>(2)) },
                            (_, inner) => Kernel { inner, method: k.method },
                        };
                        hist!(ev, cfg, "model", Kernel<$F>, k, |k: &Kernel<$F>| obs_kernel(k), eq)
                    }};
                }
                by_ft!(cfg, go)
            }
            "Svm.bool" => {
                macro_rules! go {
                    ($F:ty) => {{
                        let (x, y) = blobs::<$F>(1300 + cfg.data, 2, 8, 2);
                        let ds = DatasetBase::new(x, y.mapv(|l| l == 1));
                        let p = Svm::<$F, bool>::params().eps(<$F>::of(1e-3));
                        let p = match cfg.var {
                            0 => p.pos_neg_weights(<$F>::of(5.0), <$F>::of(5.0)).gaussian_kernel(<$F>::of(4.0)),
                            1 => p.pos_neg_weights(<$F>::of(1.0), <$F>::of(2.0)).linear_kernel(),
                            2 => p.nu_weight(<$F>::of(0.3)).polynomial_kernel(<$F>::of(1.0), <$F>::of(2.0)),
                            3 => p.pos_neg_weights(<$F>::of(5.0), <$F>::of(5.0)).gaussian_kernel(<$F>::of(4.0)),
                            4 => p.pos_neg_weights(<$F>::of(1.0), <$F>::of(2.0)).linear_kernel(),
                            _ => bad_var(cfg),
                        };
                        let mut m = p.fit(&ds).expect("harness: setup: svc fit");
                        // public fields `rho` / `alpha` moved to boundary values after the fit
                        if cfg.var == 3 {
                            m.rho = edge::<$F>(1);
                            m.alpha[0] = edge::<$F>(0);
                            m.alpha[1] = edge::<$F>(4);
                        } else if cfg.var == 4 {
                            m.rho = edge::<$F>(5);
                            m.alpha[0] = edge::<$F>(6);
                            m.alpha.truncate(3);
                        }
                        hist!(ev, cfg, "model", Svm<$F, bool>, m, |m: &Svm<$F, bool>| m.obs(), eq)
                    }};
                }
                by_ft!(cfg, go)
            }
            "Svm.Pr" => {
                macro_rules! go {
                    ($F:ty) => {{
                        let (x, y) = blobs::<$F>(1400 + cfg.data, 2, 8, 2);
                        let ds = DatasetBase::new(x, y.mapv(|l| l == 1));
                        let p = Svm::<$F, Pr>::params().eps(<$F>::of(1e-3));
                        let p = match cfg.var {
                            0 => p.pos_neg_weights(<$F>::of(5.0), <$F>::of(5.0)).gaussian_kernel(<$F>::of(4.0)),
                            1 | 2 => p.pos_neg_weights(<$F>::of(1.0), <$F>::of(1.0)).linear_kernel(),
                            _ => bad_var(cfg),
                        };
                        let mut m: Svm<$F, Pr> = p.fit(&ds).expect("harness: setup: svm-pr fit");
                        if cfg.var == 2 {
                            m.rho = edge::<$F>(2);
                            m.alpha[0] = edge::<$F>(1);
                        }
                        hist!(ev, cfg, "model", Svm<$F, Pr>, m, |m: &Svm<$F, Pr>| m.obs(), eq)
                    }};
                }
                by_ft!(cfg, go)
            }
            "Svm.reg" => {
                macro_rules! go {
                    ($F:ty) => {{
                        let (x, y) = reg_data::<$F>(1500 + cfg.data, 12, 2);
                        let ds = DatasetBase::new(x, y);
                        let p = Svm::<$F, $F>::params().eps(<$F>::of(1e-3));
                        let p = match cfg.var {
                            0 => p.c_svr(<$F>::of(10.0), Some(<$F>::of(0.1))).linear_kernel(),
                            1 => p.nu_svr(<$F>::of(0.5), Some(<$F>::of(10.0))).gaussian_kernel(<$F>::of(8.0)),
                            2 => p.c_svr(<$F>::of(10.0), Some(<$F>::of(0.1))).linear_kernel(),
                            _ => bad_var(cfg),
                        };
                        let mut m = p.fit(&ds).expect("harness: setup: svr fit");
                        if cfg.var == 2 {
                            m.rho = edge::<$F>(0);
                            let n = m.alpha.len();
                            m.alpha[n - 1] = edge::<$F>(5);
                        }
                        hist!(ev, cfg, "model", Svm<$F, $F>, m, |m: &Svm<$F, $F>| m.obs(), eq)
                    }};
                }
                by_ft!(cfg, go)
            }
            "Svm.oneclass" => {
                macro_rules! go {
                    ($F:ty) => {{
                        let x: Array2<$F> = cloud(1600 + cfg.data, 14, 2, 0.0, 2.5);
                        let ds = DatasetBase::new(x.clone(), Array1::<()>::from_elem(x.nrows(), ()));
                        let p = Svm::<$F, Pr>::params().eps(<$F>::of(1e-3)).nu_weight(<$F>::of(0.3));
                        let p = match cfg.var {
                            0 => p.gaussian_kernel(<$F>::of(3.0)),
                            1 | 2 => p.linear_kernel(),
                            _ => bad_var(cfg),
                        };
                        let mut m: Svm<$F, bool> = p.fit(&ds).expect("harness: setup: one-class fit");
                        if cfg.var == 2 {
                            m.rho = edge::<$F>(3);
                        }
                        hist!(ev, cfg, "model", Svm<$F, bool>, m, |m: &Svm<$F, bool>| m.obs(), eq)
                    }};
                }
                by_ft!(cfg, go)
            }
            _ => return false,
        }
        true
    }
}

// --------------------------------------------------------------------------------- linfa-trees
mod trees {
    use super::*;
    use linfa_trees::*;

    fn node_digest<F: Fl>(n: &TreeNode<F, usize>, mut g: Dg) -> Dg {
        let (fi, sv, imp) = n.split();
        g = g.b(n.is_leaf()).u(n.depth() as u64).u(fi as u64).f(sv).f(imp);
        g = match n.prediction() {
            Some(p) => g.u(1).u(p as u64),
            None => g.u(0),
        };
        g = match n.feature_name() {
            Some(s) => g.u(1).s(s),
            None => g.u(0),
        };
        for c in n.children() {
            g = match c {
                Some(b) => node_digest(b, g.u(1)),
                None => g.u(0),
            };
        }
        g
    }
    /// `private` adds the Debug rendering (private fields: the majority class kept in inner nodes is decided by
    /// hash-map order when classes tie, so it is only comparable between copies of one fitted tree)
    fn obs_tree<F: Fl>(m: &DecisionTree<F, usize>, private: bool) -> Ob {
        let q: Array2<F> = queries(2);
        let mut o = Ob::new();
        o.f("nodes", node_digest(m.root_node(), Dg::new()));
        let mut f = m.features();
        f.sort();
        o.d("shape", Dg::new().us(f.iter()).u(m.max_depth() as u64).u(m.num_leaves() as u64).u(m.iter_nodes().count() as u64));
        o.f("importance", Dg::new().fs(m.mean_impurity_decrease().iter()).fs(m.feature_importance().iter()));
        pforms!(o, m, q, |y: &Array1<usize>| Dg::new().us(y.iter()));
        if private {
            o.f("debug", dbg(m));
        }
        o
    }
    /// what a re-fit is compared on: the partition of the training data and the size of the tree.  Impurity
    /// values are summed in hash-map order inside `fit` (their last bits differ from fit to fit of the very
    /// same parameter set: a C20 matter), and equally good splits on different features tie, so thresholds
    /// and impurities are not comparable between two fits.
    fn refit_tree<F: Fl>(m: &DecisionTree<F, usize>, x: &Array2<F>) -> Dg {
        Dg::new().us(m.predict(x).iter()).u(m.max_depth() as u64).u(m.num_leaves() as u64)
    }
    pub fn t(ev: &mut Vec<Value>, cfg: &Cfg) -> bool {
        match cfg.ty.as_str() {
            "SplitQuality" => {
                let v = match cfg.var {
                    0 => SplitQuality::Gini,
                    1 => SplitQuality::Entropy,
                    _ => bad_var(cfg),
                };
                hist!(ev, cfg, "plain", SplitQuality, v, |v: &SplitQuality| { let mut o = Ob::new(); o.d("debug", dbg(v)); o.d("tree", tree(v)); o }, eq)
            }
            "DecisionTreeParams" | "DecisionTreeValidParams" | "DecisionTree" | "TreeNode" => {
                macro_rules! go {
                    ($F:ty) => {{
                        // class sizes 8, 7, 6: no two classes tie in any node (ties are decided by hash-map order: C14/C20)
                        let (x, y) = blobs::<$F>(1700 + cfg.data, 3, 8, 2);
                        let keep: Vec<usize> = (0..y.len()).filter(|i| !(y[*i] == 1 && *i >= 21) && !(y[*i] == 2 && *i >= 18)).collect();
                        let (x, y) = (x.select(Axis(0), &keep), y.select(Axis(0), &keep));
                        let xtrain = x.clone();
                        let ds = DatasetBase::new(x, y).with_feature_names(vec!["first", "second"]);
                        let p = DecisionTree::<$F, usize>::params();
                        let p = match cfg.var {
                            0 => p,
                            1 => p.split_quality(SplitQuality::Entropy).max_depth(Some(3)).min_weight_split(3.0).min_weight_leaf(2.0).min_impurity_decrease(<$F>::of(1e-3)),
                            2 => p.max_depth(Some(1)),
                            // boundary of the legal range: the smallest admissible impurity decrease
                            3 => p.min_impurity_decrease(edge::<$F>(8)).max_depth(Some(2)).min_weight_split(0.0).min_weight_leaf(0.0),
                            4 => p.min_impurity_decrease(<$F>::of(0.0)),
                            _ => bad_var(cfg),
                        };
                        match cfg.ty.as_str() {
                            "DecisionTreeParams" => {
                                type P = DecisionTreeParams<$F, usize>;
                                hist!(ev, cfg, "params", P, p, |p: &P| {
                                    let mut o = Ob::new();
                                    o.f("debug", dbg(p));
                                    o.f("tree", tree(p));
                                    o.d("validate", verdict(p));
                                    o.f("refit", fit_or(|| p.fit(&ds), |m| refit_tree(&m, &xtrain)));
                                    o
                                }, eq)
                            }
                            "DecisionTreeValidParams" => {
                                type P = DecisionTreeValidParams<$F, usize>;
                                let vp: P = p.check().expect("harness: invalid configuration for a checked parameter set");
                                hist!(ev, cfg, "params", P, vp, |p: &P| {
                                    let mut o = Ob::new();
                                    o.f("debug", dbg(p));
                                    o.f("accessors", Dg::new().s(&format!("{:?}{:?}", p.split_quality(), p.max_depth())).f(p.min_weight_split()).f(p.min_weight_leaf()).f(p.min_impurity_decrease()));
                                    o.d("validate", Dg::new().s("valid"));
                                    o.f("refit", fit_or(|| p.fit(&ds), |m| refit_tree(&m, &xtrain)));
                                    o
                                }, eq)
                            }
                            "DecisionTree" => {
                                let m = p.fit(&ds).expect("harness: setup: tree fit");
                                hist!(ev, cfg, "model", DecisionTree<$F, usize>, m, |m: &DecisionTree<$F, usize>| obs_tree(m, true), eq)
                            }
                            _ => {
                                let m = p.fit(&ds).expect("harness: setup: tree fit");
                                type T = TreeNode<$F, usize>;
                                hist!(ev, cfg, "model", T, m.root_node().clone(), |n: &T| {
                                    let mut o = Ob::new();
                                    o.f("nodes", node_digest(n, Dg::new()));
                                    o.f("debug", dbg(n));
                                    o.f("tree", tree(n));
                                    o
                                }, eq)
                            }
                        }
                    }};
                }
                by_ft!(cfg, go)
            }
            _ => return false,
        }
        true
    }
}

// --------------------------------------------------------------------------------- linfa-bayes
mod bayes {
    use super::*;
    use linfa::traits::FitWith;
    use linfa_bayes::*;

    pub fn t(ev: &mut Vec<Value>, cfg: &Cfg) -> bool {
        match cfg.ty.as_str() {
            "GaussianNbValidParams" | "GaussianNb" | "MultinomialNbValidParams" | "MultinomialNb" => {
                macro_rules! go {
                    ($F:ty) => {{
                        let (x, y) = blobs::<$F>(1800 + cfg.data, 3, 6, 2);
                        let x = x.mapv(|v| if cfg.ty.starts_with("Multinomial") { (v + <$F>::of(4.0)).abs() } else { v });
                        let ds = DatasetBase::new(x, y.mapv(|l| 5 + 2 * l));
                        let (x2, y2) = blobs::<$F>(2800 + cfg.data, 3, 4, 2);
                        let x2 = x2.mapv(|v| if cfg.ty.starts_with("Multinomial") { (v + <$F>::of(4.0)).abs() } else { v });
                        let ds2 = DatasetBase::new(x2, y2.mapv(|l| 5 + 2 * l));
                        // queries strictly between the classes are avoided: ties are decided by hash-map order (C14/C20)
                        let q: Array2<$F> = queries::<$F>(2).mapv(|v| if cfg.ty.starts_with("Multinomial") { v.abs() } else { v });
                        macro_rules! model_obs {
                            ($M:ty) => {
                                |m: &$M| {
                                    let mut o = Ob::new();
                                    o.f("tree", tree(m));
                                    pforms!(o, m, q, |y: &Array1<usize>| Dg::new().us(y.iter()));
                                    o.f("predict1", Dg::new().us(m.predict(&q.slice(ndarray::s![1..2, ..])).iter()));
                                    o
                                }
                            };
                        }
                        match cfg.ty.as_str() {
                            "GaussianNb" if cfg.var == 2 => {
                                let dss = DatasetBase::new(ds.records().clone(), ds.targets().mapv(|l| format!("class {}", l)));
                                let m = GaussianNb::<$F, String>::params().fit(&dss).expect("harness: setup: gnb fit");
                                hist!(ev, cfg, "model", GaussianNb<$F, String>, m, |m: &GaussianNb<$F, String>| {
                                    let mut o = Ob::new();
                                    o.f("tree", tree(m));
                                    o.f("predict", Dg::new().s(&m.predict(&q).to_vec().join("|")));
                                    o.f("predict1", Dg::new().s(&m.predict(&q.slice(ndarray::s![1..2, ..])).to_vec().join("|")));
                                    o
                                }, eq)
                            }
                            "GaussianNb" => {
                                let p = GaussianNb::<$F, usize>::params();
                                let p = match cfg.var {
                                    0 => p,
                                    1 => p.var_smoothing(<$F>::of(1e-3)),
                                    _ => bad_var(cfg),
                                };
                                let m = p.fit(&ds).expect("harness: setup: gnb fit");
                                hist!(ev, cfg, "model", GaussianNb<$F, usize>, m, |m: &GaussianNb<$F, usize>| {
                                    let mut o = model_obs!(GaussianNb<$F, usize>)(m);
                                    // one further incremental batch: restored-then-updated must equal original-then-updated
                                    o.f("update", match guarded(|| p.fit_with(Some(m.clone()), &ds2)) {
                                        Ok(r) => err_or(r, |u| match u { Some(u) => model_obs!(GaussianNb<$F, usize>)(&u).fold(), None => Dg::new().s("no model") }),
                                        Err(msg) => Dg::new().s("panic in fit_with").s(&msg),
                                    });
                                    o
                                }, eq)
                            }
                            "MultinomialNb" => {
                                let p = MultinomialNb::<$F, usize>::params();
                                let p = match cfg.var {
                                    0 => p,
                                    1 => p.alpha(<$F>::of(0.5)),
                                    _ => bad_var(cfg),
                                };
                                let m = p.fit(&ds).expect("harness: setup: mnb fit");
                                hist!(ev, cfg, "model", MultinomialNb<$F, usize>, m, |m: &MultinomialNb<$F, usize>| {
                                    let mut o = model_obs!(MultinomialNb<$F, usize>)(m);
                                    o.f("update", match guarded(|| p.fit_with(Some(m.clone()), &ds2)) {
                                        Ok(r) => err_or(r, |u| match u { Some(u) => model_obs!(MultinomialNb<$F, usize>)(&u).fold(), None => Dg::new().s("no model") }),
                                        Err(msg) => Dg::new().s("panic in fit_with").s(&msg),
                                    });
                                    o
                                }, eq)
                            }
                            "GaussianNbValidParams" => {
                                let p = GaussianNb::<$F, usize>::params();
                                let p = match cfg.var {
                                    0 => p,
                                    1 => p.var_smoothing(<$F>::of(1e-3)),
                                    _ => bad_var(cfg),
                                };
                                type P = GaussianNbValidParams<$F, usize>;
                                let vp: P = p.check().expect("harness: setup: gnb params");
                                hist!(ev, cfg, "params", P, vp, |p: &P| {
                                    let mut o = Ob::new();
                                    o.f("debug", dbg(p));
                                    o.f("accessors", Dg::new().f(p.var_smoothing()));
                                    o.d("validate", Dg::new().s("valid"));
                                    o.f("refit", fit_or(|| p.fit(&ds), |m| model_obs!(GaussianNb<$F, usize>)(&m).fold()));
                                    o
                                }, eq)
                            }
                            _ => {
                                let p = MultinomialNb::<$F, usize>::params();
                                let p = match cfg.var {
                                    0 => p,
                                    1 => p.alpha(<$F>::of(0.5)),
                                    _ => bad_var(cfg),
                                };
                                type P = MultinomialNbValidParams<$F, usize>;
                                let vp: P = p.check().expect("harness: setup: mnb params");
                                hist!(ev, cfg, "params", P, vp, |p: &P| {
                                    let mut o = Ob::new();
                                    o.f("debug", dbg(p));
                                    o.f("accessors", Dg::new().f(p.alpha()));
                                    o.d("validate", Dg::new().s("valid"));
                                    o.f("refit", fit_or(|| p.fit(&ds), |m| model_obs!(MultinomialNb<$F, usize>)(&m).fold()));
                                    o
                                }, eq)
                            }
                        }
                    }};
                }
                by_ft!(cfg, go)
            }
            _ => return false,
        }
        true
    }
}

// ---------------------------------------------------------------------------------- linfa-ftrl
mod ftrl {
    use super::*;
    use linfa::traits::FitWith;
    use linfa_ftrl::*;

    fn obs_ftrl<F: Fl>(m: &Ftrl<F>) -> Ob {
        let q: Array2<F> = queries(2);
        let mut o = Ob::new();
        o.f("z", a1(m.z()));
        o.f("n", a1(m.n()));
        o.f("hyper", Dg::new().f(m.alpha()).f(m.beta()).f(m.l1_ratio()).f(m.l2_ratio()));
        o.f("weights", a1(&m.get_weights()));
        pforms!(o, m, q, |y: &Array1<linfa::dataset::Pr>| Dg::new().fs(y.iter().map(|x| **x).collect::<Vec<f32>>().iter()));
        o
    }
    pub fn t(ev: &mut Vec<Value>, cfg: &Cfg) -> bool {
        match cfg.ty.as_str() {
            "FtrlError" => {
                let v = match cfg.var {
                    0 => FtrlError::InvalidL1Ratio(1.5),
                    1 => FtrlError::InvalidL2Ratio(-0.5),
                    2 => FtrlError::InvalidAlpha(-1.0),
                    3 => FtrlError::InvalidBeta(-2.0),
                    4 => FtrlError::InvalidNFeatures(0),
                    5 => FtrlError::LinfaError(linfa::Error::Priors("q".into())),
                    6 => FtrlError::LinfaError(linfa::Error::MismatchedShapes(1, 2)),
                    7 => FtrlError::InvalidL1Ratio(1.0),
                    8 => FtrlError::InvalidAlpha(-0.0),
                    9 => FtrlError::InvalidNFeatures(usize::MAX),
                    _ => bad_var(cfg),
                };
                hist!(ev, cfg, "plain", FtrlError, v, |e: &FtrlError| {
                    let mut o = Ob::new();
                    o.d("display", Dg::new().s(&e.to_string()));
                    o.d("debug", dbg(e));
                    o.d("tree", tree(e));
                    o
                }, noeq)
            }
            "FtrlParams" | "FtrlValidParams" | "Ftrl" => {
                macro_rules! go {
                    ($F:ty) => {{
                        let (x, y) = blobs::<$F>(1900 + cfg.data, 2, 8, 2);
                        let ds = DatasetBase::new(x, y.mapv(|l| l == 1));
                        let p = Ftrl::<$F>::params_with_rng(rng(11 + cfg.data));
                        let p = match cfg.var {
                            0 => p,
                            1 => p.alpha(<$F>::of(0.5)).beta(<$F>::of(0.7)).l1_ratio(<$F>::of(0.01)).l2_ratio(<$F>::of(0.3)),
                            // the ends of the closed ranges: ratios 0 and 1, alpha = beta = 0
                            2 => p.alpha(edge::<$F>(8)).beta(edge::<$F>(0)).l1_ratio(edge::<$F>(0)).l2_ratio(edge::<$F>(2)),
                            3 => p.l1_ratio(<$F>::of(1.5)),
                            4 => p.alpha(<$F>::of(-0.5)),
                            _ => bad_var(cfg),
                        };
                        type P = FtrlParams<$F, Xoshiro256Plus>;
                        type V = <FtrlParams<$F, Xoshiro256Plus> as ParamGuard>::Checked;
                        let refit = |vp: &V| -> Dg {
                            let mut m = Ftrl::new(vp.clone(), ds.records().ncols());
                            for _ in 0..3 {
                                m = match vp.fit_with(Some(m), &ds) {
                                    Ok(m) => m,
                                    Err(e) => return Dg::new().s("error").s(&e.to_string()),
                                };
                            }
                            obs_ftrl(&m).fold().s("ok")
                        };
                        match cfg.ty.as_str() {
                            "FtrlParams" => hist!(ev, cfg, "params", P, p, |p: &P| {
                                let mut o = Ob::new();
                                o.f("debug", dbg(p));
                                o.f("tree", tree(p));
                                o.d("validate", verdict(p));
                                o.f("refit", match p.check_ref() { Ok(vp) => refit(vp), Err(e) => Dg::new().s("error").s(&e.to_string()) });
                                o
                            }, eq),
                            "FtrlValidParams" => {
                                let vp: V = p.check().expect("harness: invalid configuration for a checked parameter set");
                                hist!(ev, cfg, "params", V, vp, |p: &V| {
                                    let mut o = Ob::new();
                                    o.f("debug", dbg(p));
                                    o.f("accessors", Dg::new().f(p.alpha()).f(p.beta()).f(p.l1_ratio()).f(p.l2_ratio()).s(&format!("{:?}", p.rng())));
                                    o.d("validate", Dg::new().s("valid"));
                                    o.f("refit", refit(p));
                                    o
                                }, eq)
                            }
                            _ => {
                                let vp: V = p.check().expect("harness: invalid configuration for a fitted model");
                                let mut m = Ftrl::new(vp.clone(), ds.records().ncols());
                                for _ in 0..(2 + cfg.var) {
                                    m = vp.fit_with(Some(m), &ds).expect("harness: setup: ftrl fit");
                                }
                                hist!(ev, cfg, "model", Ftrl<$F>, m, |m: &Ftrl<$F>| {
                                    let mut o = obs_ftrl(m);
                                    // one further incremental batch: restored-then-updated must equal original-then-updated
                                    o.f("update", match guarded(|| vp.fit_with(Some(m.clone()), &ds)) {
                                        Ok(r) => err_or(r, |u| obs_ftrl(&u).fold()),
                                        Err(msg) => Dg::new().s("panic in fit_with").s(&msg),
                                    });
                                    o
                                }, noeq)
                            }
                        }
                    }};
                }
                by_ft!(cfg, go)
            }
            _ => return false,
        }
        true
    }
}

// ---------------------------------------------------------- linfa-pls, linfa-reduction, linfa-ica
mod red {
    use super::*;
    use linfa_ica::fast_ica::{FastIca, GFunc};
    use linfa_ica::hyperparams::FastIcaValidParams;
    use linfa_pls::*;
    use linfa_reduction::{Pca, PcaParams};

    macro_rules! pls_obs {
        ($T:ident) => {
            impl_obs2!($T<F>, |m| {
                let q: Array2<F> = queries(3);
                let mut o = Ob::new();
                let (a, b) = m.weights();
                o.f("weights", a2(a).fs(b.iter()));
                let (a, b) = m.loadings();
                o.f("loadings", a2(a).fs(b.iter()));
                let (a, b) = m.rotations();
                o.f("rotations", a2(a).fs(b.iter()));
                o.f("coefficients", a2(m.coefficients()));
                o.l("layout.weights", m.weights().0.is_standard_layout() && m.weights().1.is_standard_layout());
                o.l("layout.rotations", m.rotations().0.is_standard_layout() && m.rotations().1.is_standard_layout());
                o.l("layout.coefficients", m.coefficients().is_standard_layout());
                pforms!(o, m, q, |y: &Array2<F>| a2(y));
                let yq = q.slice(ndarray::s![.., 0..2]).to_owned();
                let t = m.transform(DatasetBase::new(q.clone(), yq.clone()));
                o.f("transform", a2(t.records()).fs(t.targets().iter()));
                let t = m.transform(DatasetBase::new(q.view(), yq.view()));
                o.f("transform.view", a2(t.records()).fs(t.targets().iter()));
                let t = m.transform(DatasetBase::new(col_major(&q), col_major(&yq)));
                o.f("transform.colmajor", a2(t.records()).fs(t.targets().iter()));
                let (bq, by) = (spaced(&q), spaced(&yq));
                let t = m.transform(DatasetBase::new(bq.slice(ndarray::s![..;2, ..;2]), by.slice(ndarray::s![..;2, ..;2])));
                o.f("transform.strided", a2(t.records()).fs(t.targets().iter()));
                o.f("debug", dbg(m));
                o
            });
        };
    }
    pls_obs!(PlsRegression);
    pls_obs!(PlsCanonical);
    pls_obs!(PlsCca);

    fn pls_data<F: Fl>(cfg: &Cfg) -> DatasetBase<Array2<F>, Array2<F>> {
        let (x, y) = reg_data::<F>(2000 + cfg.data, 12, 3);
        let y2 = Array2::from_shape_fn((y.len(), 2), |(i, t)| if t == 0 { y[i] } else { x[[i, 1]] - F::of(0.5) * y[i] + x[[i, 2]] });
        DatasetBase::new(x, y2)
    }
    fn obs_pca(m: &Pca<f64>) -> Ob {
        let q: Array2<f64> = queries(3);
        let mut o = Ob::new();
        o.f("components", a2(m.components()));
        o.f("mean", a1(m.mean()));
        o.f("singular_values", a1(m.singular_values()));
        o.f("explained_variance", a1(&m.explained_variance()).fs(m.explained_variance_ratio().iter()));
        o.l("layout.components", m.components().is_standard_layout());
        let p: Array2<f64> = m.predict(&q);
        o.f("inverse", a2(&m.inverse_transform(p.clone())));
        o.f("inverse.colmajor", a2(&m.inverse_transform(col_major(&p))));
        pforms!(o, m, q, |y: &Array2<f64>| a2(y));
        o.f("transform.dataset", a2(m.transform(DatasetBase::from(q.clone())).records()));
        o.f("transform.datasetcolmajor", a2(m.transform(DatasetBase::from(col_major(&q))).records()));
        o.f("transform.datasetview", a2(m.transform(DatasetBase::from(spaced(&q).slice(ndarray::s![..;2, ..;2]))).records()));
        o
    }
    fn obs_ica<F: Fl>(m: &FastIca<F>) -> Ob {
        let q: Array2<F> = queries(3);
        let mut o = Ob::new();
        o.f("debug", dbg(m));
        o.f("tree", tree(m));
        o.f("predict", a2(&m.predict(&q)));
        o.f("predict.colmajor", a2(&m.predict(&col_major(&q))));
        o.f("predict.owned", a2(m.predict(q.clone()).targets()));
        o.f("predict.dataset", a2(&m.predict(&DatasetBase::from(col_major(&q)))));
        o
    }
    pub fn t(ev: &mut Vec<Value>, cfg: &Cfg) -> bool {
        match cfg.ty.as_str() {
            "PlsRegression" | "PlsCanonical" | "PlsCca" => {
                macro_rules! go {
                    ($F:ty) => {{
                        let ds = pls_data::<$F>(cfg);
                        let nc = match cfg.var {
                            0 => 2,
                            1 => 1,
                            _ => bad_var(cfg),
                        };
                        match cfg.ty.as_str() {
                            "PlsRegression" => {
                                let m = PlsRegression::<$F>::params(nc).fit(&ds).expect("harness: setup: pls fit");
                                hist!(ev, cfg, "model", PlsRegression<$F>, m, |m: &PlsRegression<$F>| m.obs(), eq)
                            }
                            "PlsCanonical" => {
                                let m = PlsCanonical::<$F>::params(nc).fit(&ds).expect("harness: setup: pls fit");
                                hist!(ev, cfg, "model", PlsCanonical<$F>, m, |m: &PlsCanonical<$F>| m.obs(), eq)
                            }
                            _ => {
                                let m = PlsCca::<$F>::params(nc).fit(&ds).expect("harness: setup: pls fit");
                                hist!(ev, cfg, "model", PlsCca<$F>, m, |m: &PlsCca<$F>| m.obs(), eq)
                            }
                        }
                    }};
                }
                by_ft!(cfg, go)
            }
            "PlsSvdParams" => {
                macro_rules! go {
                    ($F:ty) => {{
                        let ds = pls_data::<$F>(cfg);
                        let p = match cfg.var {
                            0 => PlsSvd::<$F>::params(2),
                            1 => PlsSvd::<$F>::params(1).scale(false),
                            _ => bad_var(cfg),
                        };
                        hist!(ev, cfg, "params", PlsSvdParams, p, |p: &PlsSvdParams| {
                            let mut o = Ob::new();
                            o.d("debug", dbg(p));
                            o.d("tree", tree(p));
                            o.d("validate", Dg::new().s("valid"));
                            o.f("refit", fit_or(|| p.fit(&ds), |m: PlsSvd<$F>| {
                                let (a, b) = m.weights();
                                let t = m.transform(pls_data::<$F>(cfg));
                                a2(a).fs(b.iter()).fs(t.records().iter()).fs(t.targets().iter())
                            }));
                            o
                        }, eq)
                    }};
                }
                by_ft!(cfg, go)
            }
            "PcaParams" | "Pca" => {
                let x: Array2<f64> = cloud(2100 + cfg.data, 12, 3, -1.0, 3.5);
                let ds = DatasetBase::from(x);
                let p = match cfg.var {
                    0 => Pca::params(2),
                    1 => Pca::params(3).whiten(true),
                    _ => bad_var(cfg),
                };
                if cfg.ty == "PcaParams" {
                    hist!(ev, cfg, "params", PcaParams, p, |p: &PcaParams| {
                        let mut o = Ob::new();
                        o.d("debug", dbg(p));
                        o.d("tree", tree(p));
                        o.d("validate", Dg::new().s("valid"));
                        o.f("refit", fit_or(|| p.fit(&ds), |m| obs_pca(&m).fold()));
                        o
                    }, eq)
                } else {
                    let m = p.fit(&ds).expect("harness: setup: pca fit");
                    hist!(ev, cfg, "model", Pca<f64>, m, |m: &Pca<f64>| obs_pca(m), eq)
                }
            }
            "GFunc" => {
                let v = match cfg.var {
                    0 => GFunc::Logcosh(1.3),
                    1 => GFunc::Exp,
                    2 => GFunc::Cube,
                    // the ends of the documented range [1, 2] of the log-cosh parameter
                    3 => GFunc::Logcosh(1.0),
                    4 => GFunc::Logcosh(2.0),
                    5 => GFunc::Logcosh(-0.0),
                    _ => bad_var(cfg),
                };
                hist!(ev, cfg, "plain", GFunc, v, |v: &GFunc| { let mut o = Ob::new(); o.f("debug", dbg(v)); o.f("tree", tree(v)); o }, eq)
            }
            "FastIcaValidParams" | "FastIca" => {
                macro_rules! go {
                    ($F:ty) => {{
                        let x: Array2<$F> = cloud(2200 + cfg.data, 20, 3, -1.0, 3.5);
                        let ds = DatasetBase::from(x);
                        let p = FastIca::<$F>::params().random_state(3 + cfg.data as usize);
                        let p = match cfg.var {
                            0 => p.ncomponents(2),
                            1 => p.ncomponents(3).gfunc(GFunc::Exp).max_iter(50).tol(<$F>::of(1e-3)),
                            2 => p.gfunc(GFunc::Logcosh(1.5)),
                            _ => bad_var(cfg),
                        };
                        if cfg.ty == "FastIca" {
                            let m = p.fit(&ds).expect("harness: setup: ica fit");
                            hist!(ev, cfg, "model", FastIca<$F>, m, |m: &FastIca<$F>| obs_ica(m), eq)
                        } else {
                            type P = FastIcaValidParams<$F>;
                            let vp: P = p.check().expect("harness: setup: ica params");
                            hist!(ev, cfg, "params", P, vp, |p: &P| {
                                let mut o = Ob::new();
                                o.f("debug", dbg(p));
                                o.f("accessors", Dg::new().s(&format!("{:?}{:?}{:?}", p.ncomponents(), p.gfunc(), p.random_state())).u(p.max_iter() as u64).f(p.tol()));
                                o.d("validate", Dg::new().s("valid"));
                                o.f("refit", fit_or(|| p.fit(&ds), |m| obs_ica(&m).fold()));
                                o
                            }, eq)
                        }
                    }};
                }
                by_ft!(cfg, go)
            }
            _ => return false,
        }
        true
    }
}

// ------------------------------------------------------------------------- linfa-preprocessing
mod prep {
    use super::*;
    use linfa_preprocessing::linear_scaling::{LinearScaler, LinearScalerParams, ScalingMethod};
    use linfa_preprocessing::norm_scaling::NormScaler;
    use linfa_preprocessing::tf_idf_vectorization::{FittedTfIdfVectorizer, TfIdfMethod, TfIdfVectorizer};
    use linfa_preprocessing::whitening::{FittedWhitener, Whitener, WhiteningMethod};
    use linfa_preprocessing::{CountVectorizer, CountVectorizerParams, CountVectorizerValidParams, PreprocessingError, Tokenizer};

    /// a tokenizer that differs from every regex used here: splits on blanks and commas, keeps one-letter words
    fn tok(s: &str) -> Vec<&str> {
        s.split(|c: char| c == ' ' || c == ',').filter(|w| !w.is_empty()).collect()
    }
    fn texts(cfg: &Cfg) -> Array1<String> {
        let pool = ["one and Two and three", "Three and four, five", "x-ray a b, c the End", "seven and EIGHT the", "Maybe ten and eleven a", "Ca\u{f1}on one two, b"];
        let n = 4 + (cfg.data % 3) as usize;
        (0..n).map(|i| pool[(i + cfg.data as usize) % pool.len()].to_string()).collect()
    }
    fn qtexts() -> Array1<String> {
        Array1::from(vec!["One b a, three Three".to_string(), "the END x-ray".to_string(), "".to_string(), "Eleven and one, TWO ca\u{f1}on".to_string(), "end two and Ten".to_string()])
    }
    /// canonical tree: arrays made only of strings are sorted (hash-set order is not part of the value)
    fn tree_sorted<T: Serialize>(v: &T) -> Dg {
        fn canon(v: &mut Value) {
            match v {
                Value::Array(a) => {
                    a.iter_mut().for_each(canon);
                    if !a.is_empty() && a.iter().all(|x| x.is_string()) {
                        a.sort_by(|x, y| x.as_str().unwrap().cmp(y.as_str().unwrap()));
                    }
                }
                Value::Object(m) => m.values_mut().for_each(canon),
                _ => {}
            }
        }
        match serde_json::to_value(v) {
            Ok(mut t) => {
                // the vocabulary list keeps its order: it is observed separately, here only as a set
                canon(&mut t);
                value_digest(&t, Dg::new())
            }
            Err(e) => Dg::new().s("to_value error").s(&e.to_string()),
        }
    }
    fn guard_or<T>(o: &mut Ob, key: &str, r: Result<T, PreprocessingError>, f: impl FnOnce(T) -> Dg) {
        match r {
            Ok(v) => o.push(key, "b", "ok", f(v).s("ok").done()),
            Err(PreprocessingError::TokenizerNotSet) => o.push(key, "b", "guard", Dg::new().done()),
            Err(e) => o.push(key, "b", "ok", Dg::new().s("error").s(&e.to_string()).done()),
        }
    }
    /// order-independent view of a fitted count vectorizer: sorted words, counts per (document, word)
    fn cv_model(cv: &CountVectorizer) -> Result<Dg, PreprocessingError> {
        let voc = cv.vocabulary().clone();
        let mut order: Vec<usize> = (0..voc.len()).collect();
        order.sort_by(|a, b| voc[*a].cmp(&voc[*b]));
        let dense = cv.transform(&qtexts())?.to_dense();
        let mut g = Dg::new().u(cv.nentries() as u64);
        for i in &order {
            g = g.s(&voc[*i]);
        }
        for r in dense.outer_iter() {
            for i in &order {
                g = g.u(r[*i] as u64);
            }
        }
        Ok(g)
    }
    fn tfidf_model(m: &FittedTfIdfVectorizer) -> Result<Dg, PreprocessingError> {
        let voc = m.vocabulary().clone();
        let mut order: Vec<usize> = (0..voc.len()).collect();
        order.sort_by(|a, b| voc[*a].cmp(&voc[*b]));
        let dense = m.transform(&qtexts())?.to_dense();
        let mut g = Dg::new().u(m.nentries() as u64).s(&format!("{:?}", m.method()));
        for i in &order {
            g = g.s(&voc[*i]);
        }
        for r in dense.outer_iter() {
            for i in &order {
                g = g.f(r[*i]);
            }
        }
        Ok(g)
    }
    /// re-fit of a count-vectorizer parameter set: the learned vocabulary (always visible) and the counts,
    /// or the fact that the fitted value refuses to transform
    fn cv_refit(cv: &CountVectorizer) -> Result<Dg, PreprocessingError> {
        let mut voc = cv.vocabulary().clone();
        voc.sort();
        let g = Dg::new().u(cv.nentries() as u64).s(&voc.join("\u{1}"));
        match cv_model(cv) {
            Ok(m) => Ok(g.u(m.done()[0].as_u64().unwrap()).u(m.done()[1].as_u64().unwrap())),
            Err(PreprocessingError::TokenizerNotSet) => Ok(g.s("transform refused: tokenizer not set")),
            Err(e) => Err(e),
        }
    }
    fn tfidf_refit(m: &FittedTfIdfVectorizer) -> Result<Dg, PreprocessingError> {
        let mut voc = m.vocabulary().clone();
        voc.sort();
        let g = Dg::new().u(m.nentries() as u64).s(&voc.join("\u{1}"));
        match tfidf_model(m) {
            Ok(x) => Ok(g.u(x.done()[0].as_u64().unwrap()).u(x.done()[1].as_u64().unwrap())),
            Err(PreprocessingError::TokenizerNotSet) => Ok(g.s("transform refused: tokenizer not set")),
            Err(e) => Err(e),
        }
    }
    /// words that start with a capital or the literal `Ca`, or have at least four letters
    const UPPER_RE: &str = r"\b(?:[A-Z]\w*|Ca\w*|\w{4,})\b";
    fn cv_params(cfg: &Cfg) -> CountVectorizerParams {
        let p = CountVectorizer::params();
        match cfg.var {
            0 => p,
            1 => p.tokenizer(Tokenizer::Regex(r"\b[a-z]+\b".to_string())).n_gram_range(1, 2).convert_to_lowercase(false).normalize(false).stopwords(&["and", "the", "zzz"]).max_features(Some(6)),
            2 => p.tokenizer(Tokenizer::Function(tok)).document_frequency(0.0, 1.0),
            // a user regex with upper-case classes / literals, with and without lower-casing of the documents
            3 => p.tokenizer(Tokenizer::Regex(UPPER_RE.to_string())),
            4 => p.tokenizer(Tokenizer::Regex(UPPER_RE.to_string())).convert_to_lowercase(false).n_gram_range(1, 2),
            5 => p.n_gram_range(0, 1),
            6 => p.tokenizer(Tokenizer::Regex("(".to_string())),
            _ => bad_var(cfg),
        }
    }
    fn obs_scaler<F: Fl>(m: &LinearScaler<F>) -> Ob {
        let q: Array2<F> = queries(3);
        let mut o = Ob::new();
        o.f("offsets", a1(m.offsets()));
        o.f("scales", a1(m.scales()));
        o.f("method", dbg(m.method()));
        tforms!(o, m, q);
        o
    }
    fn obs_whitener<F: Fl>(m: &FittedWhitener<F>) -> Ob {
        let q: Array2<F> = queries(3);
        let mut o = Ob::new();
        o.f("matrix", a2(&m.transformation_matrix().to_owned()));
        o.f("mean", a1(&m.mean().to_owned()));
        o.l("layout.matrix", m.transformation_matrix().is_standard_layout());
        tforms!(o, m, q);
        o
    }
    pub fn t(ev: &mut Vec<Value>, cfg: &Cfg) -> bool {
        match cfg.ty.as_str() {
            "TfIdfMethod" => {
                let v = match cfg.var {
                    0 => TfIdfMethod::Smooth,
                    1 => TfIdfMethod::NonSmooth,
                    2 => TfIdfMethod::Textbook,
                    _ => bad_var(cfg),
                };
                hist!(ev, cfg, "plain", TfIdfMethod, v, |v: &TfIdfMethod| {
                    let mut o = Ob::new();
                    o.d("debug", dbg(v));
                    o.d("idf", Dg::new().f(v.compute_idf(10, 3)).f(v.compute_idf(7, 7)));
                    o
                }, eq)
            }
            "WhiteningMethod" => {
                let v = match cfg.var {
                    0 => WhiteningMethod::Pca,
                    1 => WhiteningMethod::Zca,
                    2 => WhiteningMethod::Cholesky,
                    _ => bad_var(cfg),
                };
                hist!(ev, cfg, "plain", WhiteningMethod, v, |v: &WhiteningMethod| { let mut o = Ob::new(); o.d("debug", dbg(v)); o.d("tree", tree(v)); o }, eq)
            }
            "ScalingMethod" => {
                macro_rules! go {
                    ($F:ty) => {{
                        let v: ScalingMethod<$F> = match cfg.var {
                            0 => ScalingMethod::Standard(true, false),
                            1 => ScalingMethod::MinMax(<$F>::of(-0.3), <$F>::of(1.7)),
                            2 => ScalingMethod::MaxAbs,
                            3 => ScalingMethod::MinMax(edge::<$F>(0), edge::<$F>(0)),
                            4 => ScalingMethod::MinMax(edge::<$F>(1), edge::<$F>(2)),
                            5 => ScalingMethod::Standard(false, false),
                            6 => ScalingMethod::MinMax(edge::<$F>(6), edge::<$F>(5)),
                            _ => bad_var(cfg),
                        };
                        hist!(ev, cfg, "plain", ScalingMethod<$F>, v, |v: &ScalingMethod<$F>| { let mut o = Ob::new(); o.f("debug", dbg(v)); o.f("display", Dg::new().s(&v.to_string())); o.f("tree", tree(v)); o }, eq)
                    }};
                }
                by_ft!(cfg, go)
            }
            "NormScaler" => {
                let v = match cfg.var {
                    0 => NormScaler::l2(),
                    1 => NormScaler::l1(),
                    2 => NormScaler::max(),
                    _ => bad_var(cfg),
                };
                macro_rules! go {
                    ($F:ty) => {{
                        hist!(ev, cfg, "params", NormScaler, v, |v: &NormScaler| {
                            let mut o = Ob::new();
                            o.d("debug", dbg(v));
                            o.d("tree", tree(v));
                            o.d("validate", Dg::new().s("valid"));
                            let mut r = Ob::new();
                            tforms!(r, v, queries::<$F>(3));
                            o.f("refit", r.fold());
                            o
                        }, eq)
                    }};
                }
                by_ft!(cfg, go)
            }
            "LinearScalerParams" | "LinearScaler" => {
                macro_rules! go {
                    ($F:ty) => {{
                        let x: Array2<$F> = cloud(2300 + cfg.data, 9, 3, -2.0, 4.0);
                        let ds = DatasetBase::from(x);
                        let p: LinearScalerParams<$F> = match cfg.var {
                            0 => LinearScaler::standard(),
                            1 => LinearScaler::standard_no_mean(),
                            2 => LinearScaler::min_max_range(<$F>::of(-0.3), <$F>::of(1.7)),
                            3 => LinearScaler::max_abs(),
                            4 => LinearScaler::min_max_range(edge::<$F>(2), edge::<$F>(2)),
                            5 => LinearScaler::min_max_range(<$F>::of(2.0), <$F>::of(1.0)),
                            _ => bad_var(cfg),
                        };
                        if cfg.ty == "LinearScaler" {
                            let m = p.fit(&ds).expect("harness: setup: scaler fit");
                            hist!(ev, cfg, "model", LinearScaler<$F>, m, |m: &LinearScaler<$F>| obs_scaler(m), eq)
                        } else {
                            type P = LinearScalerParams<$F>;
                            hist!(ev, cfg, "params", P, p, |p: &P| {
                                let mut o = Ob::new();
                                o.f("debug", dbg(p));
                                o.f("tree", tree(p));
                                o.d("validate", Dg::new().s("valid"));
                                o.f("refit", fit_or(|| p.fit(&ds), |m| obs_scaler(&m).fold()));
                                o
                            }, eq)
                        }
                    }};
                }
                by_ft!(cfg, go)
            }
            "Whitener" | "FittedWhitener" => {
                macro_rules! go {
                    ($F:ty) => {{
                        let x: Array2<$F> = cloud(2400 + cfg.data, 10, 3, -2.0, 4.0);
                        let ds = DatasetBase::from(x);
                        let p = match cfg.var {
                            0 => Whitener::pca(),
                            1 => Whitener::zca(),
                            2 => Whitener::cholesky(),
                            _ => bad_var(cfg),
                        };
                        if cfg.ty == "FittedWhitener" {
                            let m: FittedWhitener<$F> = p.fit(&ds).expect("harness: setup: whitener fit");
                            hist!(ev, cfg, "model", FittedWhitener<$F>, m, |m: &FittedWhitener<$F>| obs_whitener(m), eq)
                        } else {
                            hist!(ev, cfg, "params", Whitener, p, |p: &Whitener| {
                                let mut o = Ob::new();
                                o.d("debug", dbg(p));
                                o.d("tree", tree(p));
                                o.d("validate", Dg::new().s("valid"));
                                let r: Result<FittedWhitener<$F>, _> = p.fit(&ds);
                                o.f("refit", err_or(r, |m| obs_whitener(&m).fold()));
                                o
                            }, eq)
                        }
                    }};
                }
                by_ft!(cfg, go)
            }
            "CountVectorizerParams" => {
                let tx = texts(cfg);
                let p = cv_params(cfg);
                let obs = |p: &CountVectorizerParams| {
                    let mut o = Ob::new();
                    // check_ref compiles the regex into the value (RefCell): validate before looking at the state
                    o.d("validate", verdict(p));
                    o.d("tree", tree_sorted(p));
                    guard_or(&mut o, "refit", p.fit(&tx).and_then(|cv| cv_refit(&cv)), |g| g);
                    o
                };
                if cfg.var == 2 {
                    hist!(ev, cfg, "params", CountVectorizerParams, p, obs, rearm | p: CountVectorizerParams | p.tokenizer(Tokenizer::Function(tok)))
                } else {
                    hist!(ev, cfg, "params", CountVectorizerParams, p, obs, noeq)
                }
            }
            "CountVectorizerValidParams" => {
                let tx = texts(cfg);
                let vp = cv_params(cfg).check().expect("harness: invalid configuration for a checked parameter set");
                hist!(ev, cfg, "params", CountVectorizerValidParams, vp, |p: &CountVectorizerValidParams| {
                    let mut o = Ob::new();
                    o.d("tree", tree_sorted(p));
                    let mut sw: Vec<String> = p.stopwords().clone().map(|s| s.into_iter().collect()).unwrap_or_default();
                    sw.sort();
                    o.d("accessors", Dg::new().b(p.convert_to_lowercase()).s(p.split_regex().as_str()).u(p.n_gram_range().0 as u64).u(p.n_gram_range().1 as u64).b(p.normalize()).f(p.document_frequency().0).f(p.document_frequency().1).s(&format!("{:?}{:?}", sw, p.max_features())));
                    o.d("validate", Dg::new().s("valid"));
                    guard_or(&mut o, "refit", p.fit(&tx).and_then(|cv| cv_refit(&cv)), |g| g);
                    o
                }, noeq)
            }
            "CountVectorizer" => {
                let tx = texts(cfg);
                let cv = cv_params(cfg).fit(&tx).expect("harness: setup: count vectorizer fit");
                let obs = |m: &CountVectorizer| {
                    let mut o = Ob::new();
                    o.d("tree", tree_sorted(m));
                    o.d("vocabulary", Dg::new().u(m.nentries() as u64).s(&m.vocabulary().join("\u{1}")));
                    guard_or(&mut o, "transform", m.transform(&qtexts()), |c| { let d = c.to_dense(); Dg::new().shape(d.shape()).us(d.iter()) });
                    guard_or(&mut o, "model", cv_model(m), |g| g);
                    o
                };
                if cfg.var == 2 {
                    hist!(ev, cfg, "model", CountVectorizer, cv, obs, rearm | mut m: CountVectorizer | { m.force_tokenizer_function_redefinition(tok); m })
                } else {
                    hist!(ev, cfg, "model", CountVectorizer, cv, obs, noeq)
                }
            }
            "TfIdfVectorizer" | "FittedTfIdfVectorizer" => {
                let tx = texts(cfg);
                let p = TfIdfVectorizer::default();
                let p = match cfg.var {
                    0 => p,
                    1 => p.tokenizer(Tokenizer::Regex(r"\b[a-z]+\b".to_string())).n_gram_range(1, 2).convert_to_lowercase(false).normalize(false).stopwords(&["and", "the"]).max_features(Some(6)),
                    2 => p.tokenizer(Tokenizer::Function(tok)),
                    3 => p.tokenizer(Tokenizer::Regex(UPPER_RE.to_string())),
                    4 => p.tokenizer(Tokenizer::Regex(UPPER_RE.to_string())).convert_to_lowercase(false).n_gram_range(1, 2),
                    5 => {
                        if cfg.ty != "TfIdfVectorizer" {
                            bad_var(cfg)
                        }
                        p.n_gram_range(2, 1)
                    }
                    _ => bad_var(cfg),
                };
                if cfg.ty == "TfIdfVectorizer" {
                    let obs = |p: &TfIdfVectorizer| {
                        let mut o = Ob::new();
                        // fit validates and compiles the regex into the value (RefCell): fit before looking at the state
                        guard_or(&mut o, "refit", p.fit(&tx).and_then(|m| tfidf_refit(&m)), |g| g);
                        o.d("tree", tree_sorted(p));
                        o.d("debug", Dg::new().b(format!("{:?}", p).contains("Smooth")));
                        o.d("validate", Dg::new().s("n/a"));
                        o
                    };
                    if cfg.var == 2 {
                        hist!(ev, cfg, "params", TfIdfVectorizer, p, obs, rearm | p: TfIdfVectorizer | p.tokenizer(Tokenizer::Function(tok)))
                    } else {
                        hist!(ev, cfg, "params", TfIdfVectorizer, p, obs, noeq)
                    }
                } else {
                    let m = p.fit(&tx).expect("harness: setup: tf-idf fit");
                    let obs = |m: &FittedTfIdfVectorizer| {
                        let mut o = Ob::new();
                        o.d("tree", tree_sorted(m));
                        o.d("vocabulary", Dg::new().u(m.nentries() as u64).s(&m.vocabulary().join("\u{1}")).s(&format!("{:?}", m.method())));
                        guard_or(&mut o, "transform", m.transform(&qtexts()), |c| { let d = c.to_dense(); Dg::new().shape(d.shape()).fs(d.iter()) });
                        guard_or(&mut o, "model", tfidf_model(m), |g| g);
                        o
                    };
                    if cfg.var == 2 {
                        hist!(ev, cfg, "model", FittedTfIdfVectorizer, m, obs, rearm | mut m: FittedTfIdfVectorizer | { m.force_tokenizer_redefinition(tok); m })
                    } else {
                        hist!(ev, cfg, "model", FittedTfIdfVectorizer, m, obs, noeq)
                    }
                }
            }
            _ => return false,
        }
        true
    }
}

/// runs the case; the events are published even if a later step panics
fn dispatch_into(out: &std::cell::RefCell<Vec<Value>>, _scratch: &mut Vec<Value>, cfg: &Cfg) {
    struct Publish<'a>(&'a std::cell::RefCell<Vec<Value>>, Vec<Value>);
    impl<'a> Drop for Publish<'a> {
        fn drop(&mut self) {
            self.0.borrow_mut().append(&mut self.1);
        }
    }
    let mut p = Publish(out, Vec::new());
    dispatch(&mut p.1, cfg);
}
fn dispatch(ev: &mut Vec<Value>, cfg: &Cfg) {
    let known = t_root(ev, cfg) || t_nn(ev, cfg) || clu::t(ev, cfg) || lin::t(ev, cfg) || enet::t(ev, cfg) || logi::t(ev, cfg) || svm::t(ev, cfg) || trees::t(ev, cfg) || bayes::t(ev, cfg) || ftrl::t(ev, cfg) || red::t(ev, cfg) || prep::t(ev, cfg);
    if !known {
        panic!("harness: unknown type {}", cfg.ty);
    }
}

fn main() {
    run_cases(|case| {
        let inp = &case["inp"];
        let cfg = Cfg {
            ty: gets(inp, "type").to_string(),
            ft: gets(inp, "ft").to_string(),
            var: geti(inp, "var") as usize,
            data: geti(inp, "data") as u64,
            wide: inp.get("wide").and_then(|w| w.as_i64()).unwrap_or(0) >= 1,
            forder: inp.get("wide").and_then(|w| w.as_i64()).unwrap_or(0) == 2,
            fmts: geta(inp, "fmts").iter().map(|x| x.as_str().unwrap().to_string()).collect(),
        };
        // A case needs a value to start from.  When the estimator itself fails on the seeded data (e.g. a power
        // method that does not converge) there is nothing to persist: the next derived seed is taken.  Such
        // failures happen before the first event and are not judged; everything after `create` is.
        let mut cfg = cfg;
        for attempt in 0..6 {
            QSEED.with(|q| q.set(cfg.data));
            FORDER.with(|w| w.set(cfg.forder));
            WIDE.with(|w| w.set(if cfg.wide { 8 + ((cfg.data + cfg.var as u64) % 5) as usize } else { 0 }));
            let ev = std::cell::RefCell::new(Vec::new());
            let r = guarded(|| {
                let mut e = Vec::new();
                dispatch_into(&ev, &mut e, &cfg);
            });
            let mut ev = ev.into_inner();
            match r {
                Ok(()) => return ev,
                // nothing was created yet: the estimator failed (or panicked) while fitting the seeded data
                Err(_) if ev.is_empty() && attempt < 5 => cfg.data += 7919,
                Err(msg) => {
                    ev.push(panic_event("case", &msg));
                    return ev;
                }
            }
        }
        unreachable!()
    });
}
