//! C01 harness: k-fold splitting (`fold`, `iter_fold`, `cross_validate`, `cross_validate_single`)
//! on identity-tagged data. Records cell (r,c) = 16r+c, target cell (r,c) = 1000+4r+c.
//! Everything handed to a closure / yielded / left in the dataset is logged as tags.
use linfa::dataset::{DatasetBase, Records};
use linfa::error::Error;
use linfa::traits::{Fit, PredictInplace};
use ndarray::{Array1, Array2, ArrayView1, ArrayView2, Ix1, Ix2};
use std::sync::Mutex;
use vh::serde_json::{json, Value};
use vh::*;

fn rows2(a: &ArrayView2<f64>) -> Value {
    Value::Array(a.outer_iter().map(|r| Value::Array(r.iter().map(|x| json!(*x as i64)).collect())).collect())
}
fn rows1(a: &ArrayView1<f64>) -> Value {
    Value::Array(a.iter().map(|x| json!([*x as i64])).collect())
}

fn tagged_records(n: usize, f: usize) -> Array2<f64> {
    Array2::from_shape_fn((n, f), |(r, c)| (16 * r + c) as f64)
}
fn tagged_targets2(n: usize, t: usize) -> Array2<f64> {
    Array2::from_shape_fn((n, t), |(r, c)| (1000 + 4 * r + c) as f64)
}
fn tagged_targets1(n: usize) -> Array1<f64> {
    Array1::from_shape_fn(n, |r| (1000 + 4 * r) as f64)
}

/// which validation block is missing from a training view (decoded from the row tags)
fn missing_block(rec: &ArrayView2<f64>, n: usize, k: usize) -> i64 {
    let fs = n / k;
    let mut present = vec![false; n];
    for r in rec.outer_iter() {
        let id = (r[0] as usize) / 16;
        if id < n {
            present[id] = true;
        }
    }
    for (id, p) in present.iter().enumerate() {
        if !p {
            return (id / fs) as i64;
        }
    }
    -1
}

struct Shared {
    log: Mutex<Vec<Value>>,
    n: usize,
    k: usize,
    t: usize,
    tab: Vec<Vec<Vec<i64>>>, // tab[m][i][c]
    fail_at: String,
    fail_m: i64,
    fail_i: i64,
}

struct Mock<'s> {
    m: usize,
    sh: &'s Shared,
}
struct MockObj<'s> {
    m: usize,
    sh: &'s Shared,
}

macro_rules! impl_mock {
    ($ix:ty, $tv:ident, $rows:ident, $arr:ty, $default:expr, $fill:expr) => {
        impl<'s, 'c> Fit<ArrayView2<'c, f64>, $tv<'c, f64>, Error> for Mock<'s> {
            type Object = MockObj<'s>;
            fn fit(&self, d: &DatasetBase<ArrayView2<'c, f64>, $tv<'c, f64>>) -> Result<Self::Object, Error> {
                let blk = missing_block(&d.records().view(), self.sh.n, self.sh.k);
                let failing = self.sh.fail_at == "fit" && self.sh.fail_m == self.m as i64 && self.sh.fail_i == blk;
                self.sh.log.lock().unwrap().push(json!({"ev": "fit", "m": self.m, "call": -1, "fails": failing, "rec": rows2(&d.records().view()), "tgt": $rows(&d.targets().view())}));
                if failing {
                    return Err(Error::Parameters(format!("inj-fit-{}-{}", self.m, blk)));
                }
                Ok(MockObj { m: self.m, sh: self.sh })
            }
        }
        impl<'s, 'a> PredictInplace<ArrayView2<'a, f64>, $arr> for MockObj<'s> {
            fn predict_inplace<'b>(&'b self, x: &'b ArrayView2<'a, f64>, y: &mut $arr) {
                let fill: fn(&mut $arr, usize, usize, usize) = $fill;
                for (p, r) in x.outer_iter().enumerate() {
                    let id = (r[0] as usize) / 16;
                    fill(y, p, id, self.m);
                }
            }
            fn default_target(&self, x: &ArrayView2<'a, f64>) -> $arr {
                let d: fn(usize, usize) -> $arr = $default;
                d(x.nsamples(), self.sh.t)
            }
        }
    };
}
impl_mock!(Ix1, ArrayView1, rows1, Array1<f64>, |n, _t| Array1::zeros(n), |y, p, id, m| {
    // accumulate (legal for PredictInplace: the buffer comes from default_target = zeros), so a buffer
    // shared between candidate models or reused across folds shows up in the predictions
    y[p] += (100000 * (m + 1) + 1000 + 4 * id) as f64;
});
impl_mock!(Ix2, ArrayView2, rows2, Array2<f64>, |n, t| Array2::zeros((n, t)), |y, p, id, m| {
    let t = y.ncols();
    for c in 0..t {
        y[[p, c]] += (100000 * (m + 1) + 1000 + 4 * id + c) as f64;
    }
});

/// the evaluation closure body: log arguments, look the score up in the case's table
fn eval_common(sh: &Shared, pred: Value, truth: Value, first_pred: Option<f64>, first_truth: Option<f64>, cols: usize) -> Result<Vec<f64>, Error> {
    let fs = sh.n / sh.k;
    let m = first_pred.map(|p| (p as i64) / 100000 - 1).unwrap_or(-1);
    let i = first_truth.map(|t| ((t as i64 - 1000) / 4) / fs as i64).unwrap_or(-1);
    let ok = m >= 0 && (m as usize) < sh.tab.len() && i >= 0 && (i as usize) < sh.k;
    let ret: Vec<i64> = if ok { (0..cols).map(|c| sh.tab[m as usize][i as usize][c]).collect() } else { vec![0; cols] };
    let failing = ok && sh.fail_at == "eval" && sh.fail_m == m && sh.fail_i == i;
    sh.log.lock().unwrap().push(json!({"ev": "eval", "pred": pred, "truth": truth, "decoded": ok, "ret": ret, "fails": failing}));
    if failing {
        return Err(Error::Parameters(format!("inj-eval-{}-{}", m, i)));
    }
    Ok(ret.into_iter().map(|x| x as f64).collect())
}

fn run(case: &Value) -> Vec<Value> {
    let kind = gets(case, "kind").to_string();
    let inp = &case["inp"];
    let n = geti(inp, "n") as usize;
    let k = geti(inp, "k") as usize;
    let f = geti(inp, "f") as usize;
    let t = geti(inp, "t") as usize;
    let store = inp.get("store").and_then(|s| s.as_str()).unwrap_or("owned").to_string();
    let nm = inp.get("nm").and_then(|x| x.as_i64()).unwrap_or(1) as usize;
    let tab: Vec<Vec<Vec<i64>>> = inp.get("tab").map(|v| v.as_array().unwrap().iter().map(imat).collect()).unwrap_or_default();
    let (fail_at, fail_m, fail_i) = match inp.get("fail") {
        Some(fl) => (gets(fl, "at").to_string(), geti(fl, "m"), geti(fl, "i")),
        None => ("none".to_string(), -1, -1),
    };
    let sh = Shared { log: Mutex::new(vec![]), n, k, t, tab, fail_at, fail_m, fail_i };
    let mut records = tagged_records(n, f);

    macro_rules! body {
        ($targets:expr, $rows:ident, $vm:ident, $ix:ty) => {{
            let mut targets = $targets;
            match kind.as_str() {
                "iter_fold" => {
                    let clo = |d: &DatasetBase<ArrayView2<f64>, ndarray::ArrayView<f64, $ix>>| {
                        let mut lg = sh.log.lock().unwrap();
                        let call = lg.len() as i64;
                        lg.push(json!({"ev": "fit", "m": 0, "call": call, "fails": false, "rec": rows2(&d.records().view()), "tgt": $rows(&d.targets().view())}));
                        call
                    };
                    if store == "owned" {
                        let mut ds = DatasetBase::new(records, targets);
                        {
                            let ys: Vec<(i64, DatasetBase<ArrayView2<f64>, _>)> = ds.iter_fold(k, clo).collect();
                            for (j, (obj, v)) in ys.iter().enumerate() {
                                sh.log.lock().unwrap().push(json!({"ev": "yield", "j": j, "obj": obj, "rec": rows2(&v.records().view()), "tgt": $rows(&v.targets().view())}));
                            }
                        }
                        sh.log.lock().unwrap().push(json!({"ev": "after", "rec": rows2(&ds.records().view()), "tgt": $rows(&ds.targets().view())}));
                    } else {
                        {
                            let mut ds = DatasetBase::new(records.view_mut(), targets.view_mut());
                            let ys: Vec<(i64, DatasetBase<ArrayView2<f64>, _>)> = ds.iter_fold(k, clo).collect();
                            for (j, (obj, v)) in ys.iter().enumerate() {
                                sh.log.lock().unwrap().push(json!({"ev": "yield", "j": j, "obj": obj, "rec": rows2(&v.records().view()), "tgt": $rows(&v.targets().view())}));
                            }
                        }
                        sh.log.lock().unwrap().push(json!({"ev": "after", "rec": rows2(&records.view()), "tgt": $rows(&targets.view())}));
                    }
                }
                "fold" => {
                    if store == "owned" {
                        let ds = DatasetBase::new(records, targets);
                        let pairs = ds.fold(k);
                        for (i, (tr, va)) in pairs.iter().enumerate() {
                            sh.log.lock().unwrap().push(json!({"ev": "pair", "i": i,
                                "trec": rows2(&tr.records().view()), "ttgt": $rows(&tr.targets().view()),
                                "vrec": rows2(&va.records().view()), "vtgt": $rows(&va.targets().view())}));
                        }
                        sh.log.lock().unwrap().push(json!({"ev": "after", "rec": rows2(&ds.records().view()), "tgt": $rows(&ds.targets().view())}));
                    } else {
                        let ds = DatasetBase::new(records.view(), targets.view());
                        let pairs = ds.fold(k);
                        for (i, (tr, va)) in pairs.iter().enumerate() {
                            sh.log.lock().unwrap().push(json!({"ev": "pair", "i": i,
                                "trec": rows2(&tr.records().view()), "ttgt": $rows(&tr.targets().view()),
                                "vrec": rows2(&va.records().view()), "vtgt": $rows(&va.targets().view())}));
                        }
                        sh.log.lock().unwrap().push(json!({"ev": "after", "rec": rows2(&ds.records().view()), "tgt": $rows(&ds.targets().view())}));
                    }
                }
                _ => unreachable!(),
            }
        }};
    }

    match (kind.as_str(), t) {
        ("iter_fold", 0) | ("fold", 0) => body!(tagged_targets1(n), rows1, ArrayViewMut1, Ix1),
        ("iter_fold", _) | ("fold", _) => body!(tagged_targets2(n, t), rows2, ArrayViewMut2, Ix2),
        ("cv", 0) | ("cv_single", 0) => {
            let mut targets = tagged_targets1(n);
            let models: Vec<Mock> = (0..nm).map(|m| Mock { m, sh: &sh }).collect();
            let single = kind == "cv_single";
            let res: Result<Array1<f64>, Error> = {
                let run_on = |res: Result<Array1<f64>, Error>| res;
                if store == "owned" {
                    let mut ds = DatasetBase::new(records.view_mut(), targets.view_mut());
                    if single {
                        run_on(ds.cross_validate_single(k, &models, |p: &Array1<f64>, tr: &ArrayView1<f64>| {
                            eval_common(&sh, rows1(&p.view()), rows1(tr), p.iter().next().cloned(), tr.iter().next().cloned(), 1).map(|v| v[0])
                        }))
                    } else {
                        run_on(ds.cross_validate(k, &models, |p: &Array1<f64>, tr: &ArrayView1<f64>| {
                            eval_common(&sh, rows1(&p.view()), rows1(tr), p.iter().next().cloned(), tr.iter().next().cloned(), 1).map(|v| ndarray::arr0(v[0]))
                        }))
                    }
                } else {
                    unreachable!()
                }
            };
            let mut lg = sh.log.lock().unwrap();
            match res {
                Ok(sc) => lg.push(json!({"ev": "result", "ok": true, "err": "", "scores": sc.iter().map(|s| json!([fx(*s, 1e4)])).collect::<Vec<_>>()})),
                Err(e) => lg.push(json!({"ev": "result", "ok": false, "err": e.to_string(), "scores": []})),
            }
            lg.push(json!({"ev": "after", "rec": rows2(&records.view()), "tgt": rows1(&targets.view())}));
        }
        ("cv", _) => {
            let mut targets = tagged_targets2(n, t);
            let models: Vec<Mock> = (0..nm).map(|m| Mock { m, sh: &sh }).collect();
            let res: Result<Array2<f64>, Error> = {
                let mut ds = DatasetBase::new(records.view_mut(), targets.view_mut());
                ds.cross_validate(k, &models, |p: &Array2<f64>, tr: &ArrayView2<f64>| {
                    eval_common(&sh, rows2(&p.view()), rows2(tr), p.iter().next().cloned(), tr.iter().next().cloned(), t).map(Array1::from)
                })
            };
            let mut lg = sh.log.lock().unwrap();
            match res {
                Ok(sc) => lg.push(json!({"ev": "result", "ok": true, "err": "", "scores": sc.outer_iter().map(|r| fxv(r.iter(), 1e4)).collect::<Vec<_>>()})),
                Err(e) => lg.push(json!({"ev": "result", "ok": false, "err": e.to_string(), "scores": []})),
            }
            lg.push(json!({"ev": "after", "rec": rows2(&records.view()), "tgt": rows2(&targets.view())}));
        }
        _ => panic!("unknown kind {}", kind),
    }
    let out = sh.log.lock().unwrap().clone();
    out
}

fn main() {
    run_cases(run);
}
