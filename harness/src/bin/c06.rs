//! C06 harness: kernel matrices (linfa-kernel) and agglomerative clustering (linfa-hierarchical).
//!
//! kind "kernel": builds the kernel of the case's lattice points through every calling form / neighbour
//!   index / float type and logs what the kernel holds (stored pattern + values of the inner matrix)
//!   and what its views report (size, column, diagonal, sum, to_upper_triangle, dot).
//! kind "hier":   builds a kernel (from points through the real API, or a dense similarity matrix
//!   exp(-dk/qd) assembled directly) and logs the labels returned for every stop criterion of the case.
//! The harness never judges; all values are logged as fixed point (S = 10^4) integers.
use linfa::dataset::DatasetBase;
use linfa::traits::Transformer;
use linfa::Float;
use linfa_hierarchical::{HierarchicalCluster, Method};
use linfa_kernel::{Inner, Kernel, KernelBase, KernelInner, KernelMethod, KernelParams, KernelType};
use linfa_nn::CommonNearestNeighbour;
use ndarray::{Array1, Array2};
use vh::serde_json::{json, Value};
use vh::*;

const S: f64 = 1e4;

fn f<F: Float>(v: F) -> f64 {
    v.to_f64().unwrap()
}
thread_local! {
    /// number of logged values that are not finite or too large for the fixed-point encoding (logged as 0)
    static BAD: std::cell::Cell<i64> = std::cell::Cell::new(0);
}
fn take_bad() -> i64 {
    BAD.with(|b| b.replace(0))
}
/// fixed point at S; a value without an integer encoding is counted and logged as 0
fn fxi(v: f64) -> Value {
    let x = fx(v, S);
    if x.is_i64() {
        x
    } else {
        BAD.with(|b| b.set(b.get() + 1));
        json!(0)
    }
}
fn fxs<F: Float>(vs: &[F]) -> Value {
    Value::Array(vs.iter().map(|v| fxi(f(*v))).collect())
}

fn method_of<F: Float>(m: &Value) -> KernelMethod<F> {
    match gets(m, "name") {
        "linear" => KernelMethod::Linear,
        "gauss" => KernelMethod::Gaussian(F::cast(geti(m, "en") as f64 / geti(m, "ed") as f64)),
        // degree d/dd (dd = 1 when absent)
        "poly" => KernelMethod::Polynomial(
            F::cast(geti(m, "c") as f64),
            F::cast(geti(m, "d") as f64 / m.get("dd").and_then(|x| x.as_i64()).unwrap_or(1) as f64),
        ),
        other => panic!("unknown kernel method {}", other),
    }
}
fn nn_of(name: &str) -> CommonNearestNeighbour {
    match name {
        "lin" => CommonNearestNeighbour::LinearSearch,
        "kd" => CommonNearestNeighbour::KdTree,
        "ball" => CommonNearestNeighbour::BallTree,
        other => panic!("unknown nn index {}", other),
    }
}
/// records = lattice points divided by the common denominator pd (1 or a power of two: exact in binary),
/// every coordinate shifted by the case's offset (offset code `off`: 0 = none; the offset is chosen per float
/// type so that every shifted coordinate is exactly representable: f64 1e6 / 1e9 / 2^40, f32 2^11 / 2^16 / 2^20)
fn points<F: Float>(rows: &[Vec<i64>], inp: &Value) -> Array2<F> {
    let pd = inp.get("pd").and_then(|x| x.as_i64()).unwrap_or(1);
    let code = inp.get("off").and_then(|x| x.as_i64()).unwrap_or(0);
    let is32 = std::mem::size_of::<F>() == 4;
    let off: f64 = match (code, is32) {
        (0, _) => 0.0,
        (1, false) => 1e6,
        (2, false) => 1e9,
        (3, false) => 1099511627776.0,
        (1, true) => 2048.0,
        (2, true) => 65536.0,
        (3, true) => 1048576.0,
        _ => panic!("unknown offset code {}", code),
    };
    let n = rows.len();
    let d = if n > 0 { rows[0].len() } else { 0 };
    Array2::from_shape_fn((n, d), |(i, j)| {
        let v = F::cast(rows[i][j] as f64 / pd as f64 + off);
        // the shifted record must be exact in F (else the case itself would be different from the specified one)
        assert!(f(v) - off == rows[i][j] as f64 / pd as f64, "offset not exact");
        v
    })
}
fn params<F: Float>(meth: &Value, k: usize, nn: &str) -> KernelParams<F, CommonNearestNeighbour> {
    Kernel::<F>::params_with_nn(nn_of(nn))
        .method(method_of::<F>(meth))
        .kind(if k == 0 { KernelType::Dense } else { KernelType::Sparse(k) })
}

/// what the kernel holds: stored pattern (0/1) and stored values (0 where nothing is stored)
fn contents<F: Float, K1: Inner<Elem = F>, K2: Inner<Elem = F>>(
    kern: &KernelBase<K1, K2>,
    dense_get: impl Fn(&K1, usize, usize) -> F,
    sparse_entries: impl Fn(&K2) -> Vec<(usize, usize, F)>,
) -> (bool, Value, Value, i64) {
    let n = kern.size();
    let mut pat = vec![vec![0i64; n]; n];
    let mut val = vec![vec![json!(0); n]; n];
    let mut dup = 0i64;
    let dense = match &kern.inner {
        KernelInner::Dense(m) => {
            for i in 0..n {
                for j in 0..n {
                    pat[i][j] = 1;
                    val[i][j] = fxi(f(dense_get(m, i, j)));
                }
            }
            true
        }
        KernelInner::Sparse(m) => {
            for (i, j, v) in sparse_entries(m) {
                if i < n && j < n {
                    if pat[i][j] == 1 {
                        dup += 1;
                    }
                    pat[i][j] = 1;
                    val[i][j] = fxi(f(v));
                } else {
                    dup += 1000;
                }
            }
            false
        }
    };
    (dense, json!(pat), json!(val), dup)
}

/// what the kernel's views report
fn views<F: Float, K1: Inner<Elem = F>, K2: Inner<Elem = F>>(kern: &KernelBase<K1, K2>, rhs: &Array2<F>, ev: &mut serde_json::Map<String, Value>) {
    let n = kern.size();
    ev.insert("views".into(), json!(true));
    let cols: Vec<Value> = (0..n).map(|i| fxs(&kern.column(i))).collect();
    ev.insert("cols".into(), Value::Array(cols));
    ev.insert("diag".into(), fxs(&kern.diagonal().to_vec()));
    ev.insert("sum".into(), fxs(&kern.sum().to_vec()));
    ev.insert("ut".into(), fxs(&kern.to_upper_triangle()));
    let d = kern.dot(&rhs.view());
    ev.insert("dot".into(), Value::Array(d.outer_iter().map(|r| fxs(&r.to_vec())).collect()));
    ev.insert("dotshape".into(), json!([d.nrows(), d.ncols()]));
    ev.insert("nsamples".into(), json!(linfa::dataset::Records::nsamples(kern)));
    ev.insert("nfeatures".into(), json!(linfa::dataset::Records::nfeatures(kern)));
}

fn owned_event<F: Float>(form: &str, nn: &str, ft: &str, kern: &Kernel<F>, rhs: Option<&Array2<F>>, tgt: Option<Vec<i64>>) -> Value {
    let (dense, pat, val, dup) = contents(
        kern,
        |m: &Array2<F>, i, j| m[(i, j)],
        |m: &sprs::CsMat<F>| m.iter().map(|(v, (i, j))| (i, j, *v)).collect(),
    );
    let mut ev = serde_json::Map::new();
    ev.insert("ev".into(), json!("kern"));
    ev.insert("form".into(), json!(form));
    ev.insert("nn".into(), json!(nn));
    ev.insert("ft".into(), json!(ft));
    ev.insert("size".into(), json!(kern.size()));
    ev.insert("dense".into(), json!(dense));
    ev.insert("isdense".into(), json!(match &kern.inner {
        KernelInner::Dense(m) => m.is_dense(),
        KernelInner::Sparse(m) => m.is_dense(),
    }));
    ev.insert("islinear".into(), json!(kern.is_linear()));
    ev.insert("pat".into(), pat);
    ev.insert("val".into(), val);
    ev.insert("dup".into(), json!(dup));
    ev.insert("hastgt".into(), json!(tgt.is_some()));
    ev.insert("tgt".into(), json!(tgt.unwrap_or_default()));
    match rhs {
        Some(r) => views(kern, r, &mut ev),
        None => {
            ev.insert("views".into(), json!(false));
        }
    }
    ev.insert("bad".into(), json!(take_bad()));
    Value::Object(ev)
}

fn view_event<F: Float>(nn: &str, ft: &str, kern: &Kernel<F>, rhs: &Array2<F>) -> Value {
    let kv = kern.view();
    let (dense, pat, val, dup) = contents(
        &kv,
        |m: &ndarray::ArrayView2<F>, i, j| m[(i, j)],
        |m: &sprs::CsMatView<F>| m.iter().map(|(v, (i, j))| (i, j, *v)).collect(),
    );
    let mut ev = serde_json::Map::new();
    ev.insert("ev".into(), json!("kern"));
    ev.insert("form".into(), json!("view"));
    ev.insert("nn".into(), json!(nn));
    ev.insert("ft".into(), json!(ft));
    ev.insert("size".into(), json!(kv.size()));
    ev.insert("dense".into(), json!(dense));
    ev.insert("isdense".into(), json!(match &kv.inner {
        KernelInner::Dense(m) => m.is_dense(),
        KernelInner::Sparse(m) => m.is_dense(),
    }));
    ev.insert("islinear".into(), json!(kv.is_linear()));
    ev.insert("pat".into(), pat);
    ev.insert("val".into(), val);
    ev.insert("dup".into(), json!(dup));
    ev.insert("hastgt".into(), json!(false));
    ev.insert("tgt".into(), json!([]));
    views(&kv, rhs, &mut ev);
    ev.insert("bad".into(), json!(take_bad()));
    Value::Object(ev)
}

fn targets_of(n: usize) -> Array1<usize> {
    Array1::from_shape_fn(n, |i| 100 + i)
}
fn tvec<'a>(t: impl IntoIterator<Item = &'a usize>) -> Vec<i64> {
    t.into_iter().map(|x| *x as i64).collect()
}

fn kernel_case_typed<F: Float>(inp: &Value, ft: &str, nns: &[&str], all_forms: bool, out: &mut Vec<Value>) {
    let rows = imat(&inp["pts"]);
    let k = geti(inp, "k") as usize;
    let meth = &inp["meth"];
    let x: Array2<F> = points(&rows, inp);
    let rhs_rows = imat(&inp["rhs"]);
    let m = if rhs_rows.is_empty() { 0 } else { rhs_rows[0].len() };
    let rhs: Array2<F> = Array2::from_shape_fn((rhs_rows.len(), m), |(i, j)| F::cast(rhs_rows[i][j] as f64));
    let n = rows.len();
    for (ni, nn) in nns.iter().enumerate() {
        let p = params::<F>(meth, k, nn);
        let step = |form: &str, out: &mut Vec<Value>, g: &dyn Fn() -> Value| match guarded(g) {
            Ok(v) => out.push(v),
            Err(msg) => out.push(json!({"ev": "panic", "at": form, "nn": nn, "ft": ft, "msg": msg})),
        };
        step("new", out, &|| {
            let kern = Kernel::new(x.view(), &p);
            owned_event("new", nn, ft, &kern, Some(&rhs), None)
        });
        if ni > 0 || !all_forms {
            continue;
        }
        step("view", out, &|| {
            let kern = Kernel::new(x.view(), &p);
            view_event(nn, ft, &kern, &rhs)
        });
        step("owned", out, &|| {
            let kern = Kernel::new(x.view(), &p);
            let o = kern.view().to_owned();
            owned_event("owned", nn, ft, &o, Some(&rhs), None)
        });
        step("t_ref", out, &|| {
            let kern: Kernel<F> = p.transform(&x);
            owned_event("t_ref", nn, ft, &kern, None, None)
        });
        step("t_view", out, &|| {
            let kern: Kernel<F> = p.transform(x.view());
            owned_event("t_view", nn, ft, &kern, None, None)
        });
        step("t_refview", out, &|| {
            let v = x.view();
            let kern: Kernel<F> = p.transform(&v);
            owned_event("t_refview", nn, ft, &kern, None, None)
        });
        step("t_ds", out, &|| {
            let ds = DatasetBase::new(x.clone(), targets_of(n));
            let kd: DatasetBase<Kernel<F>, Array1<usize>> = p.transform(ds);
            let t = tvec(kd.targets.iter());
            owned_event("t_ds", nn, ft, &kd.records, None, Some(t))
        });
        step("t_refds", out, &|| {
            let ds = DatasetBase::new(x.clone(), targets_of(n));
            let kd = p.transform(&ds);
            let t = tvec(kd.targets.iter());
            owned_event("t_refds", nn, ft, &kd.records, None, Some(t))
        });
        step("t_refdsview", out, &|| {
            let ds = DatasetBase::new(x.view(), targets_of(n));
            let kd = p.transform(&ds);
            let t = tvec(kd.targets.iter());
            owned_event("t_refdsview", nn, ft, &kd.records, None, Some(t))
        });
    }
}

/// Builder histories: Kernel::params() followed by the setter calls of each history (method / kind / nn_algo, in the
/// order given by the case); only what the resulting kernel holds is logged.
fn kernel_histories<F: Float>(inp: &Value, ft: &str, out: &mut Vec<Value>) {
    let rows = imat(&inp["pts"]);
    let x: Array2<F> = points(&rows, inp);
    let hists = match inp.get("hists").and_then(|h| h.as_array()) {
        Some(h) => h,
        None => return,
    };
    for (hi, h) in hists.iter().enumerate() {
        let r = guarded(|| {
            let mut p = Kernel::<F>::params();
            for op in h.as_array().unwrap() {
                p = match gets(op, "f") {
                    "meth" => p.method(method_of::<F>(&op["m"])),
                    "kind" => {
                        let k = geti(op, "k") as usize;
                        p.kind(if k == 0 { KernelType::Dense } else { KernelType::Sparse(k) })
                    }
                    "nn" => p.nn_algo(nn_of(gets(op, "nn"))),
                    other => panic!("unknown setter {}", other),
                };
            }
            let kern: Kernel<F> = p.transform(x.view());
            let mut ev = owned_event("hist", "hist", ft, &kern, None, None);
            ev.as_object_mut().unwrap().insert("hi".into(), json!(hi + 1));
            ev
        });
        match r {
            Ok(v) => out.push(v),
            Err(msg) => out.push(json!({"ev": "panic", "at": "hist", "hi": hi + 1, "ft": ft, "msg": msg})),
        }
    }
}

fn kernel_case(inp: &Value) -> Vec<Value> {
    let k = geti(inp, "k");
    let mut out = vec![];
    let nns: Vec<&str> = if k == 0 { vec!["kd"] } else { vec!["kd", "lin", "ball"] };
    kernel_case_typed::<f64>(inp, "f64", &nns, true, &mut out);
    kernel_histories::<f64>(inp, "f64", &mut out);
    kernel_case_typed::<f32>(inp, "f32", &nns[..1], false, &mut out);
    out.push(json!({"ev": "end"}));
    out
}

// ---------------------------------------------------------------------------------------------

fn link_of(name: &str) -> Method {
    match name {
        "single" => Method::Single,
        "complete" => Method::Complete,
        "average" => Method::Average,
        "weighted" => Method::Weighted,
        "ward" => Method::Ward,
        "centroid" => Method::Centroid,
        "median" => Method::Median,
        other => panic!("unknown linkage {}", other),
    }
}

fn base_kernel<F: Float>(inp: &Value) -> Kernel<F> {
    match gets(inp, "src") {
        "pts" => {
            let x: Array2<F> = points(&imat(&inp["pts"]), inp);
            let p = params::<F>(&inp["meth"], 0, "kd");
            p.transform(x.view())
        }
        "expmat" => {
            // similarity exp(-dk/qd), assembled directly (the fields of Kernel are public)
            let dk = imat(&inp["dk"]);
            let qd = geti(inp, "qd") as f64;
            let n = dk.len();
            let a = Array2::from_shape_fn((n, n), |(i, j)| F::cast((-(dk[i][j] as f64) / qd).exp()));
            Kernel { inner: KernelInner::Dense(a), method: KernelMethod::Linear }
        }
        other => panic!("unknown source {}", other),
    }
}

fn hier_typed<F: Float>(inp: &Value, ft: &str, out: &mut Vec<Value>) {
    let link = link_of(gets(inp, "link"));
    let base: Kernel<F> = base_kernel(inp);
    let n = base.size();
    let set_crit = |h: HierarchicalCluster<F>, crit: &Value| -> HierarchicalCluster<F> {
        match gets(crit, "t") {
            "num" => h.num_clusters(geti(crit, "c") as usize),
            "dist" => h.max_distance(F::cast(geti(crit, "tn") as f64 / geti(crit, "td") as f64)),
            // threshold -ln(tn/td)
            "lnrat" => h.max_distance(-F::cast(geti(crit, "tn") as f64 / geti(crit, "td") as f64).ln()),
            // the dissimilarity given to similarities <= 1e-6
            "floor" => h.max_distance(-F::cast(1e-6).ln()),
            other => panic!("unknown criterion {}", other),
        }
    };
    let empty = vec![];
    let hists = inp.get("hists").and_then(|h| h.as_array()).unwrap_or(&empty);
    for (ci, crit) in geta(inp, "crits").iter().enumerate() {
        let mk = || set_crit(HierarchicalCluster::<F>::default().with_method(link), crit);
        for form in ["kernel", "dataset"] {
            // the dataset calling form delegates to the kernel form: exercised for the first criterion only
            if form == "dataset" && ci > 0 {
                continue;
            }
            let r = guarded(|| {
                let res = if form == "kernel" {
                    mk().transform(base.clone())
                } else {
                    mk().transform(DatasetBase::new(base.clone(), targets_of(n)))
                };
                match res {
                    Ok(ds) => {
                        let same = ds.records == base;
                        json!({"ev": "clust", "ci": ci + 1, "hi": 0, "form": form, "ft": ft, "ok": true, "err": "",
                               "size": ds.records.size(), "same": same, "labels": tvec(ds.targets.iter())})
                    }
                    Err(e) => json!({"ev": "clust", "ci": ci + 1, "hi": 0, "form": form, "ft": ft, "ok": false, "err": e.to_string(),
                                     "size": 0, "same": false, "labels": []}),
                }
            });
            match r {
                Ok(v) => out.push(v),
                Err(msg) => out.push(json!({"ev": "panic", "at": "clust", "ci": ci + 1, "form": form, "ft": ft, "msg": msg})),
            }
        }
        // builder histories that end in (link, this criterion): default() followed by the listed setter calls
        for (hi, h) in hists.iter().enumerate() {
            if geti(h, "ci") as usize != ci + 1 {
                continue;
            }
            let r = guarded(|| {
                let mut b = HierarchicalCluster::<F>::default();
                for op in geta(h, "ops") {
                    b = match gets(op, "f") {
                        "link" => b.with_method(link_of(gets(op, "link"))),
                        "crit" => set_crit(b, &op["crit"]),
                        other => panic!("unknown setter {}", other),
                    };
                }
                match b.transform(base.clone()) {
                    Ok(ds) => json!({"ev": "clust", "ci": ci + 1, "hi": hi + 1, "form": "hist", "ft": ft, "ok": true, "err": "",
                                     "size": ds.records.size(), "same": ds.records == base, "labels": tvec(ds.targets.iter())}),
                    Err(e) => json!({"ev": "clust", "ci": ci + 1, "hi": hi + 1, "form": "hist", "ft": ft, "ok": false, "err": e.to_string(),
                                     "size": 0, "same": false, "labels": []}),
                }
            });
            match r {
                Ok(v) => out.push(v),
                Err(msg) => out.push(json!({"ev": "panic", "at": "hist", "ci": ci + 1, "hi": hi + 1, "ft": ft, "msg": msg})),
            }
        }
    }
}

fn hier_case(inp: &Value) -> Vec<Value> {
    let mut out = vec![];
    // the upper triangle handed to the linkage routine, as the kernel reports it
    let base: Kernel<f64> = base_kernel(inp);
    let ut = fxs(&base.to_upper_triangle());
    out.push(json!({"ev": "base", "size": base.size(), "ut": ut, "bad": take_bad()}));
    hier_typed::<f64>(inp, "f64", &mut out);
    if inp.get("f32").and_then(|x| x.as_bool()).unwrap_or(false) {
        hier_typed::<f32>(inp, "f32", &mut out);
    }
    out.push(json!({"ev": "end"}));
    out
}

fn run(case: &Value) -> Vec<Value> {
    let inp = &case["inp"];
    match gets(case, "kind") {
        "kernel" => kernel_case(inp),
        "hier" => hier_case(inp),
        other => panic!("unknown kind {}", other),
    }
}

fn main() {
    run_cases(run);
}
