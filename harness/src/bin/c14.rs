//! C14 harness: decision trees (`linfa_trees::DecisionTree`).
//! A case carries an integer-lattice dataset, (quarter-unit) sample weights and the hyper-parameters;
//! the harness fits the real tree and records -- without judging anything --
//!   fit   : result of `fit`, and the `tree.node` hook events (fit-time row masks) when the hook exists
//!   tree  : every node reached through `root_node()/children()` in pre-order (path, depth, is_leaf,
//!           which children exist, split feature / 2*threshold / impurity decrease, prediction) and the
//!           accessors `iter_nodes`, `max_depth`, `num_leaves`, `features`
//!   pred  : `predict` on the training records and on a grid of probe points
//!   imp   : `feature_importance`, `mean_impurity_decrease`
//! Record layouts (`inp.lay`): the same logical matrix is handed to `fit` / `predict` as a standard owned array, an
//! F-order owned array, the transposed view of a features x samples matrix, reversed-row / reversed-feature views
//! (stride -1) or every-second-row / -column views over a larger buffer; the strides the library saw are logged.
//! Encodings: thresholds as exact integers 2*t, decreases as round(v*1e6) plus f64 order keys,
//! labels as the case's small integers (mapped to usize / bool / String and back).
use linfa::prelude::*;
use linfa::Float;
use linfa_trees::{DecisionTree, SplitQuality, TreeNode};
use ndarray::{s, Array1, Array2, ArrayBase, Data, Ix2, ShapeBuilder};
use std::sync::Mutex;
use vh::serde_json::{json, Value};
use vh::*;

static HOOK_LOCK: Mutex<()> = Mutex::new(());

fn f64of<F: Float>(v: F) -> f64 {
    v.to_f64().unwrap_or(f64::NAN)
}

/// (round(v*1e6), representable?) -- TLC cannot compare strings with integers, so non-finite or
/// too large values are logged as 0 with the flag false
fn fx6(v: f64) -> (i64, bool) {
    match fx(v, 1e6).as_i64() {
        Some(i) => (i, true),
        None => (0, false),
    }
}

fn walk<F: Float, L: linfa::Label + std::fmt::Debug>(
    node: &TreeNode<F, L>,
    path: &mut Vec<i64>,
    from_l: &dyn Fn(&L) -> i64,
    out: &mut Vec<Value>,
    budget: &mut usize,
) {
    if *budget == 0 {
        return;
    }
    *budget -= 1;
    let ch = node.children();
    let (feat, thr, dec) = node.split();
    let pred = node.prediction().map(|l| from_l(&l)).unwrap_or(-1);
    let (dec6, decok) = fx6(f64of(dec));
    out.push(json!({
        "path": path.clone(),
        "depth": node.depth(),
        "leaf": node.is_leaf(),
        "hasl": ch[0].is_some(),
        "hasr": ch[1].is_some(),
        "feat": feat,
        "thr2": exact_int(2.0 * f64of(thr)),
        "dec6": dec6,
        "decok": decok,
        "deck": key64(f64of(dec)),
        "pred": pred,
    }));
    for (side, c) in ch.iter().enumerate() {
        if let Some(c) = c.as_ref() {
            path.push(side as i64);
            walk(c, path, from_l, out, budget);
            path.pop();
        }
    }
}

/// The storage behind one layout of a logical matrix: (backing buffer, is the buffer itself the matrix?).
fn backing<F: Float>(logical: &Array2<F>, lay: &str) -> Array2<F> {
    let (n, d) = logical.dim();
    let filler = |i: usize, j: usize| F::cast(-57.0 + (3 * i + 5 * j) as f64); // never a lattice value of the case
    match lay {
        "std" => logical.clone(),
        "forder" => {
            let mut v = Vec::with_capacity(n * d);
            for j in 0..d {
                for i in 0..n {
                    v.push(logical[(i, j)]);
                }
            }
            Array2::from_shape_vec((n, d).f(), v).expect("f-order array")
        }
        "tview" => Array2::from_shape_fn((d, n), |(j, i)| logical[(i, j)]),
        "revrows" => Array2::from_shape_fn((n, d), |(i, j)| logical[(n - 1 - i, j)]),
        "revcols" => Array2::from_shape_fn((n, d), |(i, j)| logical[(i, d - 1 - j)]),
        "everyrow2" => Array2::from_shape_fn((2 * n, d), |(i, j)| if i % 2 == 0 { logical[(i / 2, j)] } else { filler(i, j) }),
        "everycol2" => Array2::from_shape_fn((n, 2 * d), |(i, j)| if j % 2 == 0 { logical[(i, j / 2)] } else { filler(i, j) }),
        other => panic!("unknown layout {}", other),
    }
}

fn go<F: Float, L: linfa::Label + Default + std::fmt::Debug>(
    inp: &Value,
    to_l: &dyn Fn(i64) -> L,
    from_l: &dyn Fn(&L) -> i64,
) -> Vec<Value> {
    let x = imat(&inp["x"]);
    let n = x.len();
    let d = geti(inp, "d") as usize;
    let sc = &inp["scale"];
    let (off, mul, pm, plo, phi) = (geti(sc, "off"), geti(sc, "mul"), geti(sc, "pm"), geti(sc, "plo"), geti(sc, "phi"));
    let conv = |v: i64| F::cast((off + mul * v) as f64);
    let records = Array2::from_shape_fn((n, d), |(i, j)| conv(x[i][j]));
    // the probe grid (lexicographic, first coordinate slowest)
    let np = (phi - plo + 1).max(0) as usize;
    let total = np.pow(d as u32);
    let probes = Array2::from_shape_fn((total, d), |(r, j)| {
        let digit = (r / np.pow((d - 1 - j) as u32)) % np;
        F::cast((2 * off + pm * (plo + digit as i64)) as f64 / 2.0)
    });
    let lay = inp.get("lay").and_then(|l| l.as_str()).unwrap_or("std").to_string();
    let (rb, pb) = (backing(&records, &lay), backing(&probes, &lay));
    match lay.as_str() {
        // owned arrays (standard and column-major)
        "std" | "forder" => observe::<F, L, _, _>(inp, &lay, rb, pb, to_l, from_l),
        "tview" => observe::<F, L, _, _>(inp, &lay, rb.t(), pb.t(), to_l, from_l),
        "revrows" => observe::<F, L, _, _>(inp, &lay, rb.slice(s![..;-1, ..]), pb.slice(s![..;-1, ..]), to_l, from_l),
        "revcols" => observe::<F, L, _, _>(inp, &lay, rb.slice(s![.., ..;-1]), pb.slice(s![.., ..;-1]), to_l, from_l),
        "everyrow2" => observe::<F, L, _, _>(inp, &lay, rb.slice(s![..;2, ..]), pb.slice(s![..;2, ..]), to_l, from_l),
        "everycol2" => observe::<F, L, _, _>(inp, &lay, rb.slice(s![.., ..;2]), pb.slice(s![.., ..;2]), to_l, from_l),
        other => panic!("unknown layout {}", other),
    }
}

fn observe<F: Float, L: linfa::Label + Default + std::fmt::Debug, D: Data<Elem = F>, D2: Data<Elem = F>>(
    inp: &Value,
    lay: &str,
    records: ArrayBase<D, Ix2>,
    probes: ArrayBase<D2, Ix2>,
    to_l: &dyn Fn(i64) -> L,
    from_l: &dyn Fn(&L) -> i64,
) -> Vec<Value> {
    let y = ivec(&inp["y"]);
    let w4 = ivec(&inp["w4"]);
    let strides: Vec<i64> = records.strides().iter().map(|s| *s as i64).collect();
    let pstrides: Vec<i64> = probes.strides().iter().map(|s| *s as i64).collect();
    let targets: Array1<L> = Array1::from_iter(y.iter().map(|l| to_l(*l)));
    let mut ds = DatasetBase::new(records, targets);
    if !w4.is_empty() {
        ds = ds.with_weights(Array1::from_iter(w4.iter().map(|q| *q as f32 / 4.0)));
    }
    let crit = match gets(inp, "crit") {
        "gini" => SplitQuality::Gini,
        "entropy" => SplitQuality::Entropy,
        other => panic!("unknown criterion {}", other),
    };
    let md = geti(inp, "md");
    let mid: F = F::cast(geti(inp, "mid6") as f64 / 1e6);
    let params = DecisionTree::<F, L>::params()
        .split_quality(crit)
        .max_depth(if md < 0 { None } else { Some(md as usize) })
        .min_weight_split(geti(inp, "mws4") as f32 / 4.0)
        .min_weight_leaf(geti(inp, "mwl4") as f32 / 4.0)
        .min_impurity_decrease(mid);

    let mut ev = vec![];
    // the hook buffer is process global: serialise fit + drain
    let (res, hooks) = {
        let _g = HOOK_LOCK.lock().unwrap_or_else(|e| e.into_inner());
        linfa::verif_hook::drain();
        linfa::verif_hook::enable(true);
        let res = guarded(|| params.fit(&ds));
        linfa::verif_hook::enable(false);
        (res, linfa::verif_hook::drain())
    };
    let fitnodes: Vec<Value> = hooks
        .iter()
        .filter_map(|l| vh::serde_json::from_str::<Value>(l).ok())
        .filter(|v| v.get("ev").and_then(|e| e.as_str()) == Some("tree.node"))
        .map(|v| json!({"path": v["path"], "depth": v["depth"], "rows": v["rows"]}))
        .collect();
    let hook = !fitnodes.is_empty();
    let midk = key64(f64of(mid));
    let tree = match res {
        Err(msg) => {
            ev.push(panic_event("fit", &msg));
            return ev;
        }
        Ok(Err(e)) => {
            ev.push(json!({"ev": "fit", "ok": false, "err": e.to_string(), "hook": hook, "fitnodes": fitnodes, "midk": midk, "lay": lay, "strides": strides}));
            return ev;
        }
        Ok(Ok(t)) => t,
    };
    ev.push(json!({"ev": "fit", "ok": true, "err": "", "hook": hook, "fitnodes": fitnodes, "midk": midk, "lay": lay, "strides": strides}));

    // structure through root_node / children, and the summarising accessors
    let mut nodes = vec![];
    let mut budget = 4096usize;
    walk(tree.root_node(), &mut vec![], from_l, &mut nodes, &mut budget);
    let iter: Vec<Value> = tree
        .iter_nodes()
        .take(4096)
        .map(|nd| {
            let (feat, thr, _) = nd.split();
            json!({"depth": nd.depth(), "leaf": nd.is_leaf(), "feat": feat, "thr2": exact_int(2.0 * f64of(thr)),
                   "pred": nd.prediction().map(|l| from_l(&l)).unwrap_or(-1)})
        })
        .collect();
    let mut feats: Vec<usize> = tree.features();
    feats.sort();
    ev.push(json!({"ev": "tree", "nodes": nodes, "iter": iter, "maxdepth": tree.max_depth(),
                   "nleaves": tree.num_leaves(), "features": feats}));

    // predictions: training records (as stored in the dataset), then the probe grid, both in the case's layout
    match guarded(|| tree.predict(ds.records())) {
        Ok(p) => {
            let train: Vec<i64> = p.iter().map(|l| from_l(l)).collect();
            match guarded(|| tree.predict(&probes)) {
                Ok(pp) => {
                    let probe: Vec<i64> = pp.iter().map(|l| from_l(l)).collect();
                    ev.push(json!({"ev": "pred", "train": train, "probe": probe, "pstrides": pstrides}));
                }
                Err(msg) => ev.push(panic_event("predict-probe", &msg)),
            }
        }
        Err(msg) => ev.push(panic_event("predict", &msg)),
    }

    // importances
    match guarded(|| (tree.feature_importance(), tree.mean_impurity_decrease())) {
        Ok((imp, mean)) => {
            let impf: Vec<f64> = imp.iter().map(|v| f64of(*v)).collect();
            let meanf: Vec<f64> = mean.iter().map(|v| f64of(*v)).collect();
            ev.push(json!({"ev": "imp",
                           "imp6": impf.iter().map(|v| fx6(*v).0).collect::<Vec<_>>(), "impok": impf.iter().map(|v| fx6(*v).1).collect::<Vec<_>>(),
                           "impk": impf.iter().map(|v| key64(*v)).collect::<Vec<_>>(),
                           "mean6": meanf.iter().map(|v| fx6(*v).0).collect::<Vec<_>>(), "meanok": meanf.iter().map(|v| fx6(*v).1).collect::<Vec<_>>()}));
        }
        Err(msg) => ev.push(panic_event("importance", &msg)),
    }
    ev
}

fn run(case: &Value) -> Vec<Value> {
    let inp = &case["inp"];
    let lt = gets(inp, "lt").to_string();
    let ft = gets(inp, "ft").to_string();
    macro_rules! with_f {
        ($f:ty) => {
            match lt.as_str() {
                // an injective, non-identity embedding of the case's label numbers
                "usize" => go::<$f, usize>(inp, &|l| (7 * l + 3) as usize, &|l| if *l >= 3 && (*l - 3) % 7 == 0 { ((*l - 3) / 7) as i64 } else { -1 }),
                "bool" => go::<$f, bool>(inp, &|l| l == 1, &|l| *l as i64),
                "string" => go::<$f, String>(inp, &|l| format!("c{}", l), &|l| l.strip_prefix('c').and_then(|s| s.parse().ok()).unwrap_or(-1)),
                other => panic!("unknown label type {}", other),
            }
        };
    }
    match ft.as_str() {
        "f64" => with_f!(f64),
        "f32" => with_f!(f32),
        other => panic!("unknown float type {}", other),
    }
}

/// One trace line `{"id","kind","inp","ev"}` (the envelope of `vh::run_cases`).
fn envelope(case: &Value, ev: Vec<Value>) -> Value {
    json!({"id": case.get("id").cloned().unwrap_or(Value::Null), "kind": case.get("kind").cloned().unwrap_or(json!("")),
           "inp": case.get("inp").cloned().unwrap_or(json!({})), "ev": ev})
}

/// Worker process: runs the cases of argv[1] one after the other and appends each trace to argv[2]
/// immediately, so that the parent knows which case killed the process if it dies.
fn worker() {
    use std::io::Write;
    silence_panics();
    let cases = read_cases();
    let out = std::env::args().nth(2).expect("worker output path");
    let mut f = std::fs::OpenOptions::new().create(true).append(true).open(out).expect("open worker output");
    for c in &cases {
        let ev = match guarded(|| run(c)) {
            Ok(ev) => ev,
            Err(msg) => vec![panic_event("harness", &msg)],
        };
        writeln!(f, "{}", envelope(c, ev)).unwrap();
        f.flush().unwrap();
    }
}

/// `TreeNode::fit` is recursive: a defect that makes it recurse without end overflows the stack, which
/// aborts the process and cannot be caught. The cases are therefore executed in child processes; a case
/// that kills its worker is recorded as `{"ev":"panic","at":"fit","msg":"process aborted ..."}` (an event
/// no specification action explains) and the remaining cases are run in a fresh worker.
fn main() {
    if std::env::var("C14_WORKER").is_ok() {
        worker();
        return;
    }
    let cases = read_cases();
    let out_path = std::env::args().nth(2).expect("usage: c14 cases.ndjson traces.ndjson");
    let exe = std::env::current_exe().expect("current exe");
    let nthreads: usize = std::env::var("VH_THREADS").ok().and_then(|s| s.parse().ok()).unwrap_or(8);
    let chunk = ((cases.len() + nthreads - 1) / nthreads.max(1)).max(1);
    let mut results: Vec<Vec<Value>> = Vec::new();
    std::thread::scope(|sc| {
        let handles: Vec<_> = cases
            .chunks(chunk)
            .enumerate()
            .map(|(k, cs)| {
                let exe = &exe;
                let out_path = &out_path;
                sc.spawn(move || {
                    let mut done: Vec<Value> = Vec::new();
                    let mut rest: Vec<Value> = cs.to_vec();
                    let inp = format!("{}.w{}.in", out_path, k);
                    let outp = format!("{}.w{}.out", out_path, k);
                    while !rest.is_empty() {
                        let text: String = rest.iter().map(|c| format!("{}\n", c)).collect();
                        std::fs::write(&inp, text).expect("write worker input");
                        let _ = std::fs::remove_file(&outp);
                        let _status = std::process::Command::new(exe)
                            .arg(&inp)
                            .arg(&outp)
                            .env("C14_WORKER", "1")
                            .stderr(std::process::Stdio::null())
                            .status();
                        let lines: Vec<Value> = std::fs::read_to_string(&outp)
                            .unwrap_or_default()
                            .lines()
                            .filter_map(|l| vh::serde_json::from_str(l).ok())
                            .collect();
                        let m = lines.len().min(rest.len());
                        done.extend(lines.into_iter().take(m));
                        if m == rest.len() {
                            break;
                        }
                        done.push(envelope(&rest[m], vec![panic_event("fit", "process aborted while running this case (stack overflow or abort)")]));
                        rest = rest[m + 1..].to_vec();
                    }
                    let _ = std::fs::remove_file(&inp);
                    let _ = std::fs::remove_file(&outp);
                    done
                })
            })
            .collect();
        for h in handles {
            results.push(h.join().expect("worker thread"));
        }
    });
    let all: Vec<Value> = results.into_iter().flatten().collect();
    write_traces(&all);
}
