//! X05 harness: approximate DBSCAN on lattice inputs.
//!
//! case.inp = { dim, pts: [[int; dim]; n], minpts, eps: {n, d}, rho: {n, d}, ft: "f32"|"f64",
//!              nn: "linear"|"kdtree"|"balltree" }     (tolerance = n/d, slack = n/d, d powers of two)
//! events, in this order, for impl in ["alias", "grid"] (and "dbscan": labels/array only):
//!   {"ev":"check","impl":..,"res":"ok"|"MinPoints"|"Tolerance"|"Slack"}
//!   {"ev":"labels","impl":..,"form":"array"|"strided"|"dataset","res":"ok"|"err","labels":[-1|label ...],"rec":bool}
//! impl "alias"  = `linfa_clustering::AppxDbscan` as the crate exports it (in this tree a type alias of the exact
//!                 `Dbscan` with Euclidean distance: there is no slack parameter to set),
//! impl "dbscan" = `linfa_clustering::Dbscan::params`,
//! impl "grid"   = the approximate algorithm whose source lives in
//!                 <repo>/algorithms/linfa-clustering/src/appx_dbscan.  That module is not compiled into the crate
//!                 (its `mod` line and its `partitions` dependency are commented out), so props/x05.py
//!                 concatenates the module's files from the tree under test into harness/x05_gen/appx_dbscan.rs
//!                 (nested inline modules, `#[cfg(test)]` modules dropped, the `thiserror` derive of the error enum
//!                 replaced by a hand-written Display impl because the harness crate has no `thiserror`) and this
//!                 file includes it.  The missing crate `partitions` is replaced by the minimal union-find vector
//!                 below (`extern crate self as partitions`).
//! "rec" (dataset form) says that the records handed back are the records handed in.
//! The harness never judges: Trace_AppxDbscan.tla evaluates the contract.
#![allow(dead_code, unused_imports, unused_variables, unused_mut, unexpected_cfgs, clippy::all)]
extern crate self as partitions;

use linfa::traits::Transformer;
use linfa::{DatasetBase, Float, ParamGuard};
use linfa_nn::CommonNearestNeighbour;
use ndarray::{Array1, Array2};
use vh::serde_json::{json, Value};
use vh::*;

// -------------------------------------------------------------------------------------------------
// stand-in for `partitions::PartitionVec` (0.2): a vector whose elements are partitioned into disjoint sets

#[derive(Clone, Debug, PartialEq)]
pub struct PartitionVec<T> {
    data: Vec<T>,
    parent: Vec<usize>,
}

impl<T> PartitionVec<T> {
    pub fn new() -> Self {
        PartitionVec { data: Vec::new(), parent: Vec::new() }
    }
    pub fn with_capacity(n: usize) -> Self {
        PartitionVec { data: Vec::with_capacity(n), parent: Vec::with_capacity(n) }
    }
    pub fn push(&mut self, v: T) {
        self.parent.push(self.data.len());
        self.data.push(v);
    }
    pub fn len(&self) -> usize {
        self.data.len()
    }
    pub fn is_empty(&self) -> bool {
        self.data.is_empty()
    }
    pub fn get(&self, i: usize) -> Option<&T> {
        self.data.get(i)
    }
    pub fn get_mut(&mut self, i: usize) -> Option<&mut T> {
        self.data.get_mut(i)
    }
    pub fn iter(&self) -> std::slice::Iter<'_, T> {
        self.data.iter()
    }
    pub fn iter_mut(&mut self) -> std::slice::IterMut<'_, T> {
        self.data.iter_mut()
    }
    fn find(&self, mut i: usize) -> usize {
        while self.parent[i] != i {
            i = self.parent[i];
        }
        i
    }
    pub fn same_set(&self, a: usize, b: usize) -> bool {
        self.find(a) == self.find(b)
    }
    pub fn union(&mut self, a: usize, b: usize) {
        let (ra, rb) = (self.find(a), self.find(b));
        if ra != rb {
            self.parent[rb] = ra;
        }
    }
    fn roots(&self) -> Vec<usize> {
        (0..self.data.len()).map(|i| self.find(i)).collect()
    }
    pub fn all_sets(&self) -> std::vec::IntoIter<std::vec::IntoIter<(usize, &T)>> {
        let roots = self.roots();
        let mut order: Vec<usize> = Vec::new();
        let mut groups: std::collections::HashMap<usize, Vec<(usize, &T)>> = std::collections::HashMap::new();
        for (i, v) in self.data.iter().enumerate() {
            if !groups.contains_key(&roots[i]) {
                order.push(roots[i]);
            }
            groups.entry(roots[i]).or_default().push((i, v));
        }
        order.into_iter().map(|r| groups.remove(&r).unwrap().into_iter()).collect::<Vec<_>>().into_iter()
    }
    pub fn all_sets_mut(&mut self) -> std::vec::IntoIter<std::vec::IntoIter<(usize, &mut T)>> {
        let roots = self.roots();
        let mut order: Vec<usize> = Vec::new();
        let mut groups: std::collections::HashMap<usize, Vec<(usize, &mut T)>> = std::collections::HashMap::new();
        for (i, v) in self.data.iter_mut().enumerate() {
            if !groups.contains_key(&roots[i]) {
                order.push(roots[i]);
            }
            groups.entry(roots[i]).or_default().push((i, v));
        }
        order.into_iter().map(|r| groups.remove(&r).unwrap().into_iter()).collect::<Vec<_>>().into_iter()
    }
}
impl<T> std::ops::Index<usize> for PartitionVec<T> {
    type Output = T;
    fn index(&self, i: usize) -> &T {
        &self.data[i]
    }
}
impl<T> std::ops::IndexMut<usize> for PartitionVec<T> {
    fn index_mut(&mut self, i: usize) -> &mut T {
        &mut self.data[i]
    }
}
impl<'a, T> IntoIterator for &'a PartitionVec<T> {
    type Item = &'a T;
    type IntoIter = std::slice::Iter<'a, T>;
    fn into_iter(self) -> Self::IntoIter {
        self.data.iter()
    }
}

// -------------------------------------------------------------------------------------------------
// the approximate algorithm, source taken from the tree under test (generated by props/x05.py)

mod appx_dbscan {
    include!("../../x05_gen/appx_dbscan.rs");
}
// the module refers to `crate::AppxDbscanValidParams` etc.
use appx_dbscan::{AppxDbscanParams, AppxDbscanParamsError, AppxDbscanValidParams};

// -------------------------------------------------------------------------------------------------

fn index_of(name: &str) -> CommonNearestNeighbour {
    match name {
        "linear" => CommonNearestNeighbour::LinearSearch,
        "kdtree" => CommonNearestNeighbour::KdTree,
        "balltree" => CommonNearestNeighbour::BallTree,
        _ => panic!("unknown index {}", name),
    }
}

fn labels_json(l: &Array1<Option<usize>>) -> Value {
    Value::Array(l.iter().map(|x| json!(x.map(|v| v as i64).unwrap_or(-1))).collect())
}

fn push_labels<E>(ev: &mut Vec<Value>, imp: &str, form: &str, r: Result<Result<(Array1<Option<usize>>, bool), E>, String>) {
    match r {
        Ok(Ok((lab, rec))) => {
            ev.push(json!({"ev": "labels", "impl": imp, "form": form, "res": "ok", "labels": labels_json(&lab), "rec": rec}))
        }
        Ok(Err(_)) => ev.push(json!({"ev": "labels", "impl": imp, "form": form, "res": "err", "labels": [], "rec": true})),
        Err(msg) => ev.push(json!({"ev": "panic", "impl": imp, "form": form, "msg": msg})),
    }
}

fn same_records<F: Float>(a: &Array2<F>, b: &Array2<F>) -> bool {
    a.dim() == b.dim() && a.iter().zip(b.iter()).all(|(x, y)| x == y)
}

fn run<F: Float>(inp: &Value) -> Vec<Value> {
    let dim = geti(inp, "dim") as usize;
    let pts = imat(&inp["pts"]);
    let n = pts.len();
    let mp = geti(inp, "minpts") as usize;
    let eps = F::cast(geti(&inp["eps"], "n") as f64) / F::cast(geti(&inp["eps"], "d") as f64);
    let rho = F::cast(geti(&inp["rho"], "n") as f64) / F::cast(geti(&inp["rho"], "d") as f64);
    let nn = index_of(gets(inp, "nn"));
    let data: Array2<F> = Array2::from_shape_fn((n, dim), |(r, c)| F::cast(pts[r][c] as f64));
    // strided form: the points are every other row of a buffer whose odd rows hold far-away junk
    let buf: Array2<F> = Array2::from_shape_fn((2 * n, dim), |(r, c)| {
        if r % 2 == 0 {
            F::cast(pts[r / 2][c] as f64)
        } else {
            F::cast(1000.0 + r as f64)
        }
    });
    let mut ev = Vec::new();

    // ---- the exported name: linfa_clustering::AppxDbscan
    {
        let p = linfa_clustering::AppxDbscan::params::<F>(mp).tolerance(eps).nn_algo(nn.clone());
        let res = match guarded(|| p.clone().check()) {
            Ok(Ok(_)) => "ok".to_string(),
            Ok(Err(linfa_clustering::AppxDbscanParamsError::MinPoints)) => "MinPoints".to_string(),
            Ok(Err(linfa_clustering::AppxDbscanParamsError::Tolerance)) => "Tolerance".to_string(),
            Err(msg) => format!("panic {}", msg),
        };
        ev.push(json!({"ev": "check", "impl": "alias", "res": res}));
        push_labels(&mut ev, "alias", "array", guarded(|| p.transform(&data).map(|l| (l, true))));
        let view = buf.slice(ndarray::s![..;2, ..]);
        push_labels(&mut ev, "alias", "strided", guarded(|| p.transform(&view).map(|l| (l, true))));
        push_labels(
            &mut ev,
            "alias",
            "dataset",
            guarded(|| {
                p.transform(DatasetBase::from(data.clone()))
                    .map(|out| (out.targets().clone(), same_records(out.records(), &data)))
            }),
        );
    }
    // ---- linfa's exact DBSCAN
    {
        let p = linfa_clustering::Dbscan::params::<F>(mp).tolerance(eps).nn_algo(nn.clone());
        push_labels(&mut ev, "dbscan", "array", guarded(|| p.transform(&data).map(|l| (l, true))));
    }
    // ---- the approximate algorithm of src/appx_dbscan
    {
        let p = appx_dbscan::AppxDbscan::params::<F>(mp).tolerance(eps).slack(rho).nn_algo(nn.clone());
        let res = match guarded(|| p.clone().check()) {
            Ok(Ok(_)) => "ok".to_string(),
            Ok(Err(AppxDbscanParamsError::MinPoints)) => "MinPoints".to_string(),
            Ok(Err(AppxDbscanParamsError::Tolerance)) => "Tolerance".to_string(),
            Ok(Err(AppxDbscanParamsError::Slack)) => "Slack".to_string(),
            Err(msg) => format!("panic {}", msg),
        };
        ev.push(json!({"ev": "check", "impl": "grid", "res": res}));
        push_labels(&mut ev, "grid", "array", guarded(|| p.transform(&data).map(|l| (l, true))));
        let view = buf.slice(ndarray::s![..;2, ..]);
        push_labels(&mut ev, "grid", "strided", guarded(|| p.transform(&view).map(|l| (l, true))));
        push_labels(
            &mut ev,
            "grid",
            "dataset",
            guarded(|| {
                p.transform(DatasetBase::from(data.clone()))
                    .map(|out| (out.targets().clone(), same_records(out.records(), &data)))
            }),
        );
    }
    ev
}

fn main() {
    run_cases(|case| {
        let inp = &case["inp"];
        match gets(inp, "ft") {
            "f32" => run::<f32>(inp),
            _ => run::<f64>(inp),
        }
    });
}
