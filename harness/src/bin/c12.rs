//! C12 harness: logistic regression (binary / multinomial) and Tweedie GLMs on integer lattice data.
//! The harness only converts the abstract case to arrays, calls the real API (fit, params, intercept,
//! labels/classes, predict_probabilities, set_threshold, predict) and records what comes back as
//! fixed-point integers / order keys / label strings. Every relation (stationarity of the documented
//! objective, probability values and ranges, threshold / arg-max decision, support check) is evaluated
//! by TLC (specs/Trace_Logistic.tla, specs/Trace_Glm.tla).
//!
//! case.inp (all kinds): x (n rows of p ints), q (extra query rows, ints), qv (optional: more query rows, judged by the
//!   validity clauses only), an/ad (alpha = an/ad), icpt
//!   bin  : y (class index 0/1 per row), lt ("bool"|"usize"|"string"), names (string form of class 0 / 1),
//!          init ([] or p+icpt ints, value v/10), thrs (list of {"k":"default"} | {"k":"frac","a","b"} | {"k":"row","r"})
//!   multi: y (class index), lt, names, init ([] or (p+icpt) rows of K ints, value v/10)
//!   glm  : y (ints, value y/yd * 2^ue), yd, ue (optional unit exponent), pn/pd (power), link ("identity"|"log"|"logit"|"auto")
//! events:
//!   {"ev":"fit","ok":true,"w6":..,"b6":..,"pos","neg" | "classes"}   (scale 10^6; "sane" false if not finite/too big)
//!   {"ev":"fit","ok":false,"err":<variant>}
//!   {"ev":"proba","p4":[..],"pk":[key64..]}            probabilities on rows x ++ q (scale 10^4 + order keys)
//!   {"ev":"predict","thr":<spec>,"tk":key64(threshold),"pk":[..],"cls":[label strings]}
//!   {"ev":"mu","m4":[..],"mk":[key64..]}               glm predictions on rows x ++ q
use linfa::traits::{Fit, Predict};
use linfa::DatasetBase;
use linfa_linear::{Link, TweedieRegressor};
use linfa_logistic::{LogisticRegression, MultiLogisticRegression};
use ndarray::{Array1, Array2};
use vh::serde_json::{json, Value};
use vh::*;

const S6: f64 = 1e6;
const S4: f64 = 1e4;

fn fx_sane(v: f64, s: f64, sane: &mut bool) -> Value {
    let x = fx(v, s);
    if x.is_i64() {
        x
    } else {
        *sane = false;
        x
    }
}

fn mat(rows: &[Vec<i64>], p: usize) -> Array2<f64> {
    to_array2(rows, p)
}

trait Lab: Ord + Clone + Default + std::fmt::Display {
    fn mk(s: &str) -> Self;
}
impl Lab for bool {
    fn mk(s: &str) -> Self {
        s == "true"
    }
}
impl Lab for usize {
    fn mk(s: &str) -> Self {
        s.parse().expect("usize label")
    }
}
impl Lab for String {
    fn mk(s: &str) -> Self {
        s.to_string()
    }
}

fn errname(e: &dyn std::fmt::Debug) -> String {
    let s = format!("{:?}", e);
    s.chars().take_while(|c| c.is_ascii_alphanumeric()).take(40).collect()
}

fn clean(s: String) -> String {
    s.chars().filter(|c| c.is_ascii() && *c != '"' && *c != '\\').take(100).collect()
}

struct Common {
    x: Array2<f64>,
    xq: Array2<f64>, // x ++ q ++ qv
    alpha: f64,
    icpt: bool,
    p: usize,
}

fn common(inp: &Value) -> Common {
    let xr = imat(&inp["x"]);
    let qr = imat(&inp["q"]);
    let p = geti(inp, "p") as usize;
    let x = mat(&xr, p);
    let mut all = xr.clone();
    all.extend(qr.iter().cloned());
    // "qv": further query rows (extreme magnitudes) that the specification judges by the validity clauses only
    if let Some(v) = inp.get("qv") {
        all.extend(imat(v).iter().cloned());
    }
    let xq = mat(&all, p);
    Common { x, xq, alpha: geti(inp, "an") as f64 / geti(inp, "ad") as f64, icpt: getb(inp, "icpt"), p }
}

fn labels<C: Lab>(inp: &Value) -> Array1<C> {
    let names: Vec<String> = geta(inp, "names").iter().map(|v| v.as_str().unwrap().to_string()).collect();
    let y = ivec(&inp["y"]);
    Array1::from_iter(y.iter().map(|k| C::mk(&names[*k as usize])))
}

/// threshold of a case: {"k":"default"} | {"k":"frac","a":..,"b":..} | {"k":"row","r":<1-based query row>}
/// ("row": the threshold is set to exactly the probability the model returned for that row)
fn parse_thr(spec: &Value, probs: &Array1<f64>) -> f64 {
    match gets(spec, "k") {
        "row" => probs[geti(spec, "r") as usize - 1],
        "frac" => geti(spec, "a") as f64 / geti(spec, "b") as f64,
        _ => 0.5,
    }
}

fn run_bin<C: Lab>(inp: &Value) -> Vec<Value> {
    let c = common(inp);
    let y: Array1<C> = labels(inp);
    let init = ivec(&inp["init"]);
    let mut params = LogisticRegression::default()
        .alpha(c.alpha)
        .with_intercept(c.icpt)
        .max_iterations(geti(inp, "maxit") as u64)
        .gradient_tolerance(tol_of(inp));
    if !init.is_empty() {
        params = params.initial_params(Array1::from_iter(init.iter().map(|v| *v as f64 / 10.0)));
    }
    let ds = DatasetBase::new(c.x.clone(), y);
    let mut out = vec![];
    let model = match params.fit(&ds).map_err(|e| (errname(&e), clean(format!("{}", e)))) {
        Err((e, msg)) => {
            out.push(json!({"ev": "fit", "ok": false, "err": e, "msg": msg}));
            return out;
        }
        Ok(m) => m,
    };
    let mut sane = true;
    let w6: Vec<Value> = model.params().iter().map(|v| fx_sane(*v, S6, &mut sane)).collect();
    let b6 = fx_sane(model.intercept(), S6, &mut sane);
    out.push(json!({"ev": "fit", "ok": true, "sane": sane, "w6": w6, "b6": b6,
        "pos": clean(format!("{}", model.labels().pos.class)), "neg": clean(format!("{}", model.labels().neg.class))}));
    let probs = model.predict_probabilities(&c.xq);
    out.push(json!({"ev": "proba", "fin": all_finite(probs.iter()), "p4": fxv(probs.iter(), S4), "pk": probs.iter().map(|v| key64(*v)).collect::<Vec<_>>()}));
    for spec in geta(inp, "thrs") {
        // every threshold starts from the freshly fitted model, so {"k":"default"} observes the default threshold
        let thr = parse_thr(spec, &probs);
        let m2 = if gets(spec, "k") == "default" {
            model.clone()
        } else {
            match guarded(|| model.clone().set_threshold(thr)) {
                Ok(m) => m,
                Err(msg) => {
                    out.push(panic_event("set_threshold", &msg));
                    continue;
                }
            }
        };
        match guarded(|| (m2.predict(&c.xq), m2.predict_probabilities(&c.xq))) {
            Ok((cls, pr)) => out.push(json!({"ev": "predict", "thr": spec, "tk": key64(thr),
                "pk": pr.iter().map(|v| key64(*v)).collect::<Vec<_>>(),
                "cls": cls.iter().map(|l| clean(format!("{}", l))).collect::<Vec<_>>()})),
            Err(msg) => out.push(panic_event("predict", &msg)),
        }
    }
    out
}

fn run_multi<C: Lab>(inp: &Value) -> Vec<Value> {
    let c = common(inp);
    let y: Array1<C> = labels(inp);
    let init = imat(&inp["init"]);
    let mut params = MultiLogisticRegression::default()
        .alpha(c.alpha)
        .with_intercept(c.icpt)
        .max_iterations(geti(inp, "maxit") as u64)
        .gradient_tolerance(tol_of(inp));
    if !init.is_empty() {
        let k = init[0].len();
        params = params.initial_params(Array2::from_shape_fn((init.len(), k), |(i, j)| init[i][j] as f64 / 10.0));
    }
    let ds = DatasetBase::new(c.x.clone(), y);
    let mut out = vec![];
    let model = match params.fit(&ds).map_err(|e| (errname(&e), clean(format!("{}", e)))) {
        Err((e, msg)) => {
            out.push(json!({"ev": "fit", "ok": false, "err": e, "msg": msg}));
            return out;
        }
        Ok(m) => m,
    };
    let mut sane = true;
    let w6: Vec<Value> = model.params().outer_iter().map(|r| Value::Array(r.iter().map(|v| fx_sane(*v, S6, &mut sane)).collect())).collect();
    let b6: Vec<Value> = model.intercept().iter().map(|v| fx_sane(*v, S6, &mut sane)).collect();
    out.push(json!({"ev": "fit", "ok": true, "sane": sane, "w6": w6, "b6": b6,
        "classes": model.classes().iter().map(|l| clean(format!("{}", l))).collect::<Vec<_>>()}));
    let probs = model.predict_probabilities(&c.xq);
    let p4: Vec<Value> = probs.outer_iter().map(|r| fxv(r.iter(), S4)).collect();
    let pk: Vec<Value> = probs.outer_iter().map(|r| Value::Array(r.iter().map(|v| key64(*v)).collect())).collect();
    // row sums at a finer scale (the "rows sum to one" clause); computed by plain summation of the returned values
    let rs: Vec<Value> = probs.outer_iter().map(|r| fx(r.iter().sum::<f64>(), S6)).collect();
    out.push(json!({"ev": "proba", "fin": all_finite(probs.iter()), "p4": p4, "pk": pk, "rs6": rs}));
    match guarded(|| model.predict(&c.xq)) {
        Ok(cls) => out.push(json!({"ev": "predict", "cls": cls.iter().map(|l| clean(format!("{}", l))).collect::<Vec<_>>()})),
        Err(msg) => out.push(panic_event("predict", &msg)),
    }
    out
}

fn run_glm(inp: &Value) -> Vec<Value> {
    let c = common(inp);
    let yd = geti(inp, "yd") as f64;
    // targets in the unit 2^ue (exact scaling in binary floating point); ue defaults to 0
    let unit = 2f64.powi(inp.get("ue").and_then(|v| v.as_i64()).unwrap_or(0) as i32);
    let y = Array1::from_iter(ivec(&inp["y"]).iter().map(|v| *v as f64 / yd * unit));
    let power = geti(inp, "pn") as f64 / geti(inp, "pd") as f64;
    let mut params = TweedieRegressor::params()
        .alpha(c.alpha)
        .fit_intercept(c.icpt)
        .power(power)
        .max_iter(geti(inp, "maxit") as usize)
        .tol(tol_of(inp));
    params = match gets(inp, "link") {
        "identity" => params.link(Link::Identity),
        "log" => params.link(Link::Log),
        "logit" => params.link(Link::Logit),
        _ => params,
    };
    let ds = DatasetBase::new(c.x.clone(), y);
    let mut out = vec![];
    let model = match params.fit(&ds).map_err(|e| (errname(&e), clean(format!("{}", e)))) {
        Err((e, msg)) => {
            out.push(json!({"ev": "fit", "ok": false, "err": e, "msg": msg}));
            return out;
        }
        Ok(m) => m,
    };
    let mut sane = true;
    let w6: Vec<Value> = model.coef.iter().map(|v| fx_sane(*v, S6, &mut sane)).collect();
    let b6 = fx_sane(model.intercept, S6, &mut sane);
    out.push(json!({"ev": "fit", "ok": true, "sane": sane, "w6": w6, "b6": b6}));
    match guarded(|| model.predict(&c.xq)) {
        Ok(mu) => out.push(json!({"ev": "mu", "fin": all_finite(mu.iter()), "m4": fxv(mu.iter(), S4), "mk": mu.iter().map(|v| key64(*v)).collect::<Vec<_>>()})),
        Err(msg) => out.push(panic_event("predict", &msg)),
    }
    out
}

fn run_one(case: &Value) -> Vec<Value> {
    let kind = gets(case, "kind");
    let inp = &case["inp"];
    match kind {
        "bin" => match gets(inp, "lt") {
            "bool" => run_bin::<bool>(inp),
            "usize" => run_bin::<usize>(inp),
            _ => run_bin::<String>(inp),
        },
        "multi" => match gets(inp, "lt") {
            "bool" => run_multi::<bool>(inp),
            "usize" => run_multi::<usize>(inp),
            _ => run_multi::<String>(inp),
        },
        "glm" => run_glm(inp),
        other => vec![json!({"ev": "badkind", "kind": other})],
    }
}

/// CPU seconds (user + system) consumed so far by process `pid` (Linux /proc; clock tick 100 Hz).
fn cpu_secs(pid: u32) -> f64 {
    let s = std::fs::read_to_string(format!("/proc/{}/stat", pid)).unwrap_or_default();
    let rest = s.rsplit(')').next().unwrap_or("");
    let f: Vec<&str> = rest.split_whitespace().collect();
    if f.len() < 13 {
        return 0.0;
    }
    (f[11].parse::<f64>().unwrap_or(0.0) + f[12].parse::<f64>().unwrap_or(0.0)) / 100.0
}

/// Execute one case in a child process (`c12 --one`, case on stdin, events on stdout). The L-BFGS /
/// More-Thuente line search of argmin can loop forever near the floating-point limit; a fit cannot be
/// interrupted inside a thread, so the child is killed once it has burnt VH_FIT_CPU seconds of CPU time
/// (default 4; a normal case needs milliseconds; CPU time, not wall time, so machine load cannot cause it)
/// and the case is recorded as {"ev":"fit","ok":false,"err":"TIMEOUT"}.
fn run_in_child(exe: &std::path::Path, case: &Value) -> Vec<Value> {
    use std::io::{Read, Write};
    use std::process::{Command, Stdio};
    let limit: f64 = std::env::var("VH_FIT_CPU").ok().and_then(|s| s.parse().ok()).unwrap_or(4.0);
    let mut child = Command::new(exe)
        .arg("--one")
        .stdin(Stdio::piped())
        .stdout(Stdio::piped())
        .stderr(Stdio::null())
        .spawn()
        .expect("spawn child");
    {
        let mut si = child.stdin.take().unwrap();
        si.write_all(serde_json::to_string(case).unwrap().as_bytes()).unwrap();
    }
    let mut so = child.stdout.take().unwrap();
    let reader = std::thread::spawn(move || {
        let mut s = String::new();
        let _ = so.read_to_string(&mut s);
        s
    });
    let t0 = std::time::Instant::now();
    let mut nap = 1u64;
    let mut killed = false;
    loop {
        match child.try_wait() {
            Ok(Some(_)) => break,
            Ok(None) => {}
            Err(_) => break,
        }
        if cpu_secs(child.id()) > limit || t0.elapsed().as_secs() > 1800 {
            let _ = child.kill();
            let _ = child.wait();
            killed = true;
            break;
        }
        std::thread::sleep(std::time::Duration::from_millis(nap));
        nap = (nap * 2).min(50);
    }
    let text = reader.join().unwrap_or_default();
    if killed {
        return vec![json!({"ev": "fit", "ok": false, "err": "TIMEOUT", "msg": ""})];
    }
    match serde_json::from_str::<Value>(&text) {
        Ok(Value::Array(a)) => a,
        _ => vec![json!({"ev": "panic", "at": "child", "msg": "no output from child process"})],
    }
}

fn main() {
    if std::env::args().nth(1).as_deref() == Some("--one") {
        silence_panics();
        let mut s = String::new();
        std::io::Read::read_to_string(&mut std::io::stdin(), &mut s).unwrap();
        let case: Value = serde_json::from_str(&s).expect("case json");
        let ev = match guarded(|| run_one(&case)) {
            Ok(ev) => ev,
            Err(msg) => vec![json!({"ev": "panic", "msg": msg})],
        };
        println!("{}", serde_json::to_string(&Value::Array(ev)).unwrap());
        return;
    }
    let exe = std::env::current_exe().expect("current_exe");
    run_cases(|case| run_in_child(&exe, case));
}

/// solver tolerance 10^-te from the case
fn tol_of(inp: &Value) -> f64 {
    10f64.powi(-(geti(inp, "te") as i32))
}
