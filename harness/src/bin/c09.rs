//! C09 harness: k-means (`KMeans::params_with(..).fit`, `predict`, `transform`, accessors) on
//! integer-lattice data. The harness only feeds the abstract case to the real API and logs what
//! comes back as integers (fixed point / exact-integer flags / order keys). No oracle logic here.
//!
//! kinds
//!   "traj"    : KMeansInit::Precomputed(c0), n_runs(inp.nruns), tolerance tol, max_n_iterations(m) for every
//!               m in inp.ms  -> one "fit" event per budget (the property's own observation method)
//!   "restart" : seeded initialiser (random / k-means++ / k-means||), for every iteration budget in
//!               inp.maxits: n_runs(r) for r = 1..inp.runs from
//!               the same seed -> one "multi" event per r, and one "single" event per r: a 1-run fit
//!               whose generator starts where the generator of the (r-1)-run fit stopped (i.e. the
//!               r-th restart on its own; the generator handed to linfa shares its state with the harness)
use linfa::traits::{Fit, Predict, Transformer};
use linfa::{DatasetBase, Float};
use linfa_clustering::{KMeans, KMeansInit};
use linfa_nn::distance::{Distance, L1Dist, L2Dist, LInfDist, LpDist};
use ndarray::{s, Array1, Array2, ArrayView2, ShapeBuilder};
use rand::{Error as RandError, RngCore, SeedableRng};
use rand_xoshiro::Xoshiro256Plus;
use std::sync::{Arc, Mutex};
use vh::serde_json::{json, Value};
use vh::*;

const S: f64 = 1e5;

/// A generator whose clones share one state: `fit` clones the generator it is given, so the harness
/// can read where the stream stands after a fit (needed to re-run a single restart on its own).
#[derive(Clone)]
struct SharedRng(Arc<Mutex<Xoshiro256Plus>>);
impl SharedRng {
    fn new(r: Xoshiro256Plus) -> Self {
        SharedRng(Arc::new(Mutex::new(r)))
    }
    fn snapshot(&self) -> Xoshiro256Plus {
        self.0.lock().unwrap().clone()
    }
}
impl RngCore for SharedRng {
    fn next_u32(&mut self) -> u32 {
        self.0.lock().unwrap().next_u32()
    }
    fn next_u64(&mut self) -> u64 {
        self.0.lock().unwrap().next_u64()
    }
    fn fill_bytes(&mut self, dest: &mut [u8]) {
        self.0.lock().unwrap().fill_bytes(dest)
    }
    fn try_fill_bytes(&mut self, dest: &mut [u8]) -> Result<(), RandError> {
        self.0.lock().unwrap().try_fill_bytes(dest)
    }
}

fn arr<F: Float>(rows: &[Vec<i64>], ncols: usize) -> Array2<F> {
    Array2::from_shape_fn((rows.len(), ncols), |(i, j)| F::cast(rows[i][j]))
}
/// The same logical matrix in different memory layouts (inp.form): the code under test must only see
/// the logical values. "owned"/"view": standard layout; "revf"/"revr"/"revb": views with a reversed
/// (stride -1) feature axis / row axis / both; "forder": column-major owned array; "row2"/"col2":
/// views taking every second row / column of a larger buffer whose other cells hold junk (97).
struct Laid<F> {
    back: Array2<F>,
    lay: String,
}
impl<F: Float> Laid<F> {
    fn new(logical: &Array2<F>, lay: &str) -> Self {
        let (n, f) = logical.dim();
        let junk = F::cast(97);
        let back = match lay {
            "owned" | "view" => logical.clone(),
            // (built cell by cell in standard layout: `to_owned()` of a reversed view would keep the negative stride)
            "revf" => Array2::from_shape_fn((n, f), |(i, j)| logical[[i, f - 1 - j]]),
            "revr" => Array2::from_shape_fn((n, f), |(i, j)| logical[[n - 1 - i, j]]),
            "revb" => Array2::from_shape_fn((n, f), |(i, j)| logical[[n - 1 - i, f - 1 - j]]),
            "forder" => Array2::from_shape_fn((n, f).f(), |(i, j)| logical[[i, j]]),
            "row2" => Array2::from_shape_fn((2 * n, f), |(i, j)| if i % 2 == 0 { logical[[i / 2, j]] } else { junk }),
            "col2" => Array2::from_shape_fn((n, 2 * f), |(i, j)| if j % 2 == 0 { logical[[i, j / 2]] } else { junk }),
            _ => panic!("unknown form {}", lay),
        };
        Laid { back, lay: lay.to_string() }
    }
    fn view(&self) -> ArrayView2<'_, F> {
        debug_assert!(self.back.is_standard_layout() || self.lay == "forder");
        match self.lay.as_str() {
            "revf" => self.back.slice(s![.., ..;-1]),
            "revr" => self.back.slice(s![..;-1, ..]),
            "revb" => self.back.slice(s![..;-1, ..;-1]),
            "row2" => self.back.slice(s![..;2, ..]),
            "col2" => self.back.slice(s![.., ..;2]),
            _ => self.back.view(),
        }
    }
    /// owned forms are handed over as owned arrays, all others as views
    fn owned(&self) -> bool {
        self.lay == "owned" || self.lay == "forder"
    }
}

fn f64of<F: Float>(v: F) -> f64 {
    v.to_f64().unwrap_or(f64::NAN)
}

/// everything the public API tells about a fitted model, on the training points and on the queries
fn observe<F: Float, D: Distance<F>>(model: &KMeans<F, D>, lp: &Laid<F>, lq: &Laid<F>, pw: i32, o: &mut vh::serde_json::Map<String, Value>) {
    let pts = lp.view();
    let qs = lq.view();
    let cen = model.centroids();
    let cv: Vec<f64> = cen.iter().map(|v| f64of(*v)).collect();
    o.insert("strides".into(), json!(pts.strides().iter().map(|x| *x as i64).collect::<Vec<_>>()));
    o.insert("nrows".into(), json!(cen.nrows()));
    o.insert("ncols".into(), json!(cen.ncols()));
    o.insert("fin".into(), json!(all_finite(cv.iter())));
    o.insert("cen".into(), Value::Array(cen.outer_iter().map(|r| Value::Array(r.iter().map(|v| fx(f64of(*v), S)).collect())).collect()));
    o.insert("counts".into(), Value::Array(model.cluster_count().iter().map(|v| exact_int(f64of(*v))).collect()));
    let inertia = f64of(model.inertia());
    o.insert("inertia".into(), fx(inertia, S));
    o.insert("ikey".into(), key64(inertia));
    // batch predict on an array reference (owned array or view, in the case's layout), transform on a view
    let lab: Array1<usize> = if lp.owned() { model.predict(&lp.back) } else { model.predict(&pts) };
    o.insert("lab".into(), json!(lab.iter().map(|l| *l as i64).collect::<Vec<_>>()));
    let tr: Array1<F> = model.transform(&pts);
    o.insert("tr".into(), Value::Array(tr.iter().map(|v| fx(f64of(*v), S)).collect()));
    o.insert("trsum".into(), fx(f64of(tr.sum()), S));
    // Minkowski metrics return the distance (sum |d|^p)^(1/p): also log its p-th power (pw = 1 otherwise)
    o.insert("trp".into(), Value::Array(tr.iter().map(|v| fx(f64of(*v).powi(pw), S)).collect()));
    // new observations: predict through a dataset (targets replaced), transform
    let qlab: Vec<i64> = if lq.owned() {
        model.predict(DatasetBase::from(lq.back.clone())).targets().iter().map(|l| *l as i64).collect()
    } else {
        model.predict(DatasetBase::from(qs)).targets().iter().map(|l| *l as i64).collect()
    };
    o.insert("qlab".into(), json!(qlab));
    let qtr: Array1<F> = if lq.owned() { model.transform(&lq.back) } else { model.transform(&qs) };
    o.insert("qtr".into(), Value::Array(qtr.iter().map(|v| fx(f64of(*v), S)).collect()));
    o.insert("qtrp".into(), Value::Array(qtr.iter().map(|v| fx(f64of(*v).powi(pw), S)).collect()));
    // single-observation form (Ix1)
    let q1: Vec<i64> = qs.outer_iter().map(|r| {
        let l: usize = model.predict(&r);
        l as i64
    }).collect();
    o.insert("qlab1".into(), json!(q1));
    // every fixed-point field is an integer (finite and inside the loggable range)
    let allnum = ["cen", "tr", "qtr", "trp", "qtrp"].iter().all(|k| {
        o[*k].as_array().unwrap().iter().all(|v| match v {
            Value::Array(r) => r.iter().all(|x| x.is_i64()),
            x => x.is_i64(),
        })
    }) && o["inertia"].is_i64() && o["trsum"].is_i64();
    o.insert("num".into(), json!(allnum));
}

/// exponent of the Minkowski metrics "lp1" / "lp2" / "lp3" (1 for every other metric)
fn pw_of(inp: &Value) -> i32 {
    match gets(inp, "metric") {
        "lp2" => 2,
        "lp3" => 3,
        _ => 1,
    }
}

fn tol_of<F: Float>(inp: &Value) -> F {
    let t = ivec(&inp["tol"]);
    F::cast(t[0] as f64 / t[1] as f64)
}

/// number of huge-budget fits that did not return within HUGE_WAIT (their threads keep spinning until the
/// process ends); after HUNG_MAX of them no further huge-budget fit is started
static HUNG: std::sync::atomic::AtomicUsize = std::sync::atomic::AtomicUsize::new(0);
const HUNG_MAX: usize = 4;
const HUGE_WAIT: std::time::Duration = std::time::Duration::from_secs(20);

fn run_traj<F: Float, D: Distance<F> + 'static>(inp: &Value, dist: D) -> Vec<Value> {
    let pts_i = imat(&inp["pts"]);
    let c0_i = imat(&inp["c0"]);
    let qs_i = imat(&inp["qs"]);
    let f = geti(inp, "f") as usize;
    let pts: Array2<F> = arr(&pts_i, f);
    let c0: Array2<F> = arr(&c0_i, f);
    let qs: Array2<F> = arr(&qs_i, f);
    let k = c0.nrows();
    let form = gets(inp, "form");
    let lp = Arc::new(Laid::new(&pts, form));
    let lq = Arc::new(Laid::new(&qs, form));
    let pw = pw_of(inp);
    // every restart starts from the same precomputed centroids, so n_runs > 1 must not change anything
    let nruns = geti(inp, "nruns") as usize;
    let mut out = Vec::new();
    // small budgets (event "fit", field m), then budgets of 2^32 and more given as decimal strings
    // (event "fitx", field hm): u64 values that neither JSON integers of the trace nor TLC can hold
    let mut budgets: Vec<(u64, Option<String>)> = ivec(&inp["ms"]).into_iter().map(|m| (m as u64, None)).collect();
    for h in geta(inp, "hms") {
        let sv = h.as_str().expect("hms entries are strings");
        budgets.push((sv.parse::<u64>().expect("u64 budget"), Some(sv.to_string())));
    }
    for (m, hm) in budgets {
        let params = KMeans::params_with(k, Xoshiro256Plus::seed_from_u64(7), dist.clone())
            .init_method(KMeansInit::Precomputed(c0.clone()))
            .n_runs(nruns)
            .tolerance(tol_of::<F>(inp))
            .max_n_iterations(m);
        // fit and observe; Ok(Ok(fields)) / Ok(Err(fit error)) / Err(panic message)
        let (lp2, lq2) = (lp.clone(), lq.clone());
        let work = move || {
            guarded(|| {
                let fitted = if lp2.owned() {
                    params.fit(&DatasetBase::from(lp2.back.clone()))
                } else {
                    params.fit(&DatasetBase::from(lp2.view()))
                };
                fitted.map(|model| {
                    let mut oo = vh::serde_json::Map::new();
                    observe(&model, &lp2, &lq2, pw, &mut oo);
                    oo
                }).map_err(|e| e.to_string())
            })
        };
        let mut o = vh::serde_json::Map::new();
        let res = match &hm {
            None => {
                o.insert("ev".into(), json!("fit"));
                o.insert("m".into(), json!(m));
                work()
            }
            Some(sv) => {
                // a budget of 2^32 and more never binds: the run must end by its tolerance after a few
                // iterations. Run it on its own thread so that an implementation that does not stop
                // cannot hang the harness; a fit that has not returned after HUGE_WAIT is logged as such.
                o.insert("ev".into(), json!("fitx"));
                o.insert("hm".into(), json!(sv));
                if HUNG.load(std::sync::atomic::Ordering::SeqCst) >= HUNG_MAX {
                    Ok(Err("not run: earlier fits with a huge iteration budget did not return".to_string()))
                } else {
                    let (tx, rx) = std::sync::mpsc::channel();
                    std::thread::spawn(move || {
                        let _ = tx.send(work());
                    });
                    match rx.recv_timeout(HUGE_WAIT) {
                        Ok(r) => r,
                        Err(_) => {
                            HUNG.fetch_add(1, std::sync::atomic::Ordering::SeqCst);
                            Ok(Err("fit did not return within 20 s (tolerance met after a few iterations)".to_string()))
                        }
                    }
                }
            }
        };
        match res {
            Err(msg) => {
                out.push(panic_event("fit", &msg));
                continue;
            }
            Ok(Err(e)) => {
                o.insert("ok".into(), json!(false));
                o.insert("err".into(), json!(e));
            }
            Ok(Ok(oo)) => {
                o.insert("ok".into(), json!(true));
                o.extend(oo);
            }
        }
        out.push(Value::Object(o));
    }
    out.push(json!({"ev": "end"}));
    out
}

fn init_of<F: Float>(name: &str) -> KMeansInit<F> {
    match name {
        "random" => KMeansInit::Random,
        "kmpp" => KMeansInit::KMeansPlusPlus,
        "kmpara" => KMeansInit::KMeansPara,
        _ => panic!("unknown init {}", name),
    }
}

fn run_restart<F: Float, D: Distance<F>>(inp: &Value, dist: D) -> Vec<Value> {
    let pts_i = imat(&inp["pts"]);
    let qs_i = imat(&inp["qs"]);
    let f = geti(inp, "f") as usize;
    let pts: Array2<F> = arr(&pts_i, f);
    let qs: Array2<F> = arr(&qs_i, f);
    let form = gets(inp, "form");
    let lp = Laid::new(&pts, form);
    let lq = Laid::new(&qs, form);
    let k = geti(inp, "k") as usize;
    let seed = geti(inp, "seed") as u64;
    let runs = geti(inp, "runs") as usize;
    let init = gets(inp, "init");
    let mut out = Vec::new();
    for (bi, maxit) in ivec(&inp["maxits"]).into_iter().enumerate() {
    let maxit = maxit as u64;
    let b = bi + 1;
    // generator state after the (r-1)-run fit (same budget) = where restart r starts
    let mut state_before = Xoshiro256Plus::seed_from_u64(seed);
    for r in 1..=runs {
        // the r-th restart alone
        {
            let params = KMeans::params_with(k, state_before.clone(), dist.clone())
                .init_method(init_of::<F>(init))
                .n_runs(1)
                .tolerance(tol_of::<F>(inp))
                .max_n_iterations(maxit);
            let mut o = vh::serde_json::Map::new();
            o.insert("ev".into(), json!("single"));
            o.insert("b".into(), json!(b));
            o.insert("r".into(), json!(r));
            match guarded(|| (if lp.owned() { params.fit(&DatasetBase::from(lp.back.clone())) } else { params.fit(&DatasetBase::from(lp.view())) }).map(|model| {
                let mut oo = vh::serde_json::Map::new();
                observe(&model, &lp, &lq, pw_of(inp), &mut oo);
                oo
            })) {
                Err(msg) => {
                    out.push(panic_event("single", &msg));
                    continue;
                }
                Ok(Err(e)) => {
                    o.insert("ok".into(), json!(false));
                    o.insert("err".into(), json!(e.to_string()));
                }
                Ok(Ok(oo)) => {
                    o.insert("ok".into(), json!(true));
                    o.extend(oo);
                }
            }
            out.push(Value::Object(o));
        }
        // r restarts from the seed
        let shared = SharedRng::new(Xoshiro256Plus::seed_from_u64(seed));
        let params = KMeans::params_with(k, shared.clone(), dist.clone())
            .init_method(init_of::<F>(init))
            .n_runs(r)
            .tolerance(tol_of::<F>(inp))
            .max_n_iterations(maxit);
        let mut o = vh::serde_json::Map::new();
        o.insert("ev".into(), json!("multi"));
        o.insert("b".into(), json!(b));
        o.insert("r".into(), json!(r));
        match guarded(|| (if lp.owned() { params.fit(&DatasetBase::from(lp.back.clone())) } else { params.fit(&DatasetBase::from(lp.view())) }).map(|model| {
            let mut oo = vh::serde_json::Map::new();
            observe(&model, &lp, &lq, pw_of(inp), &mut oo);
            oo
        })) {
            Err(msg) => {
                out.push(panic_event("multi", &msg));
                continue;
            }
            Ok(Err(e)) => {
                o.insert("ok".into(), json!(false));
                o.insert("err".into(), json!(e.to_string()));
            }
            Ok(Ok(oo)) => {
                o.insert("ok".into(), json!(true));
                o.extend(oo);
            }
        }
        out.push(Value::Object(o));
        state_before = shared.snapshot();
    }
    }
    out.push(json!({"ev": "end"}));
    out
}

fn run(case: &Value) -> Vec<Value> {
    let kind = gets(case, "kind");
    let inp = &case["inp"];
    let ft = gets(inp, "ft");
    let metric = gets(inp, "metric");
    macro_rules! go {
        ($f:ty, $d:expr) => {
            match kind {
                "traj" => run_traj::<$f, _>(inp, $d),
                "restart" => run_restart::<$f, _>(inp, $d),
                _ => panic!("unknown kind {}", kind),
            }
        };
    }
    match (ft, metric) {
        ("f64", "l2") => go!(f64, L2Dist),
        ("f64", "l1") => go!(f64, L1Dist),
        ("f64", "linf") => go!(f64, LInfDist),
        ("f32", "l2") => go!(f32, L2Dist),
        ("f32", "l1") => go!(f32, L1Dist),
        ("f32", "linf") => go!(f32, LInfDist),
        ("f64", "lp1") => go!(f64, LpDist(1.0f64)),
        ("f64", "lp2") => go!(f64, LpDist(2.0f64)),
        ("f64", "lp3") => go!(f64, LpDist(3.0f64)),
        ("f32", "lp1") => go!(f32, LpDist(1.0f32)),
        ("f32", "lp2") => go!(f32, LpDist(2.0f32)),
        ("f32", "lp3") => go!(f32, LpDist(3.0f32)),
        _ => panic!("unknown ft/metric {} {}", ft, metric),
    }
}

fn main() {
    run_cases(run);
}
