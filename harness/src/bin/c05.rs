//! C05 harness: evaluation metrics (confusion matrix and its derived scores, ROC/AUC, log-loss,
//! regression scores, silhouette, Pearson) called through the public API on arrays and datasets.
//! Nothing is judged here: inputs come from the case, every returned value is logged as an
//! integer-only observation `[k, v]`:
//!   k = "s6": v = round(x * 10^6) (|x| < 1000)      k = "s3": v = round(x * 10^3) (|x| < 10^6)
//!   k = "s4": v = round(x * 10^4) (ln-based scores)  k = "nan" | "pinf" | "ninf" | "big" | "err"
//! Confusion-matrix cells are private; they are read from the public `Debug` rendering.
use linfa::dataset::{DatasetBase, Label, Pr};
use linfa::prelude::*;
use ndarray::{Array1, Array2};
use std::fmt::Display;
use vh::serde_json::{json, Map, Value};
use vh::*;

// ---------------------------------------------------------------------------------------------
// encoders

fn tagged(k: &str, v: i64) -> Value {
    json!([k, v])
}
fn nonfinite(v: f64) -> Option<Value> {
    if v.is_nan() {
        Some(tagged("nan", 0))
    } else if v.is_infinite() {
        Some(tagged(if v > 0.0 { "pinf" } else { "ninf" }, 0))
    } else {
        None
    }
}
/// general score: 10^-6 units below 1000, 10^-3 units below 10^6
fn num(v: f64) -> Value {
    if let Some(x) = nonfinite(v) {
        return x;
    }
    if v.abs() < 1000.0 {
        tagged("s6", (v * 1e6).round() as i64)
    } else if v.abs() < 1e6 {
        tagged("s3", (v * 1e3).round() as i64)
    } else {
        tagged("big", 0)
    }
}
/// ln-based score at 10^-4
fn num4(v: f64) -> Value {
    if let Some(x) = nonfinite(v) {
        return x;
    }
    if v.abs() < 1e5 {
        tagged("s4", (v * 1e4).round() as i64)
    } else {
        tagged("big", 0)
    }
}
fn res<T: Copy + Into<f64>, E>(r: Result<T, E>, enc: fn(f64) -> Value) -> Value {
    match r {
        Ok(v) => enc(v.into()),
        Err(_) => tagged("err", 0),
    }
}
fn resv<T: Copy + Into<f64>, E>(r: Result<Array1<T>, E>, enc: fn(f64) -> Value) -> Value {
    match r {
        Ok(v) => Value::Array(v.iter().map(|x| enc((*x).into())).collect()),
        Err(_) => json!([tagged("err", 0)]),
    }
}

fn permute<T: Clone>(v: &[T], perm: &[i64]) -> Vec<T> {
    perm.iter().map(|p| v[(*p - 1) as usize].clone()).collect()
}
fn is_identity(perm: &[i64]) -> bool {
    perm.iter().enumerate().all(|(i, p)| *p == i as i64 + 1)
}
fn get_perm(inp: &Value, n: usize) -> Vec<i64> {
    match inp.get("perm") {
        Some(p) if p.is_array() && p.as_array().unwrap().len() == n => ivec(p),
        _ => (1..=n as i64).collect(),
    }
}

// ---------------------------------------------------------------------------------------------
// confusion matrix

/// parse the `Debug` rendering of a confusion matrix: header line `classes | m0 | m1 ..`, then one
/// line per member `m_i | c_i0 | c_i1 ..`
fn parse_cm(dbg: &str, dec: &dyn Fn(&str) -> i64) -> (Vec<i64>, Vec<Vec<f64>>, Vec<i64>) {
    let lines: Vec<&str> = dbg.lines().filter(|l| !l.trim().is_empty()).collect();
    let head: Vec<&str> = lines[0].split(" | ").map(|s| s.trim()).collect();
    let members: Vec<i64> = head[1..].iter().map(|s| dec(s)).collect();
    let mut cells = Vec::new();
    let mut rowm = Vec::new();
    for l in &lines[1..] {
        let cols: Vec<&str> = l.split(" | ").map(|s| s.trim()).collect();
        rowm.push(dec(cols[0]));
        cells.push(cols[1..].iter().map(|s| s.parse::<f64>().unwrap_or(f64::NAN)).collect());
    }
    (members, cells, rowm)
}
/// integer cells; `exact` is cleared when a printed cell is not an integer
fn cells_int(cells: &[Vec<f64>], exact: &mut bool) -> Value {
    Value::Array(
        cells
            .iter()
            .map(|r| {
                Value::Array(
                    r.iter()
                        .map(|x| {
                            if !x.is_finite() || x.fract() != 0.0 || x.abs() > 1e9 {
                                *exact = false;
                                json!(-1)
                            } else {
                                json!(*x as i64)
                            }
                        })
                        .collect(),
                )
            })
            .collect(),
    )
}
fn dec_bool(s: &str) -> i64 {
    match s {
        "true" => 1,
        "false" => 0,
        _ => -1,
    }
}
fn split_json(v: Vec<ConfusionMatrix<bool>>, exact: &mut bool) -> Value {
    Value::Array(
        v.iter()
            .map(|m| {
                let (_mem, cells, _rowm) = parse_cm(&format!("{:?}", m), &dec_bool);
                cells_int(&cells, exact)
            })
            .collect(),
    )
}

/// members and cells of one confusion matrix (one event per label type x calling form)
fn cm_cells_event<L: Label + Display>(cm: &ConfusionMatrix<L>, dec: &dyn Fn(&str) -> i64, m: &mut Map<String, Value>) {
    let (members, cells, rowm) = parse_cm(&format!("{:?}", cm), dec);
    let mut exact = true;
    m.insert("members".into(), json!(members));
    m.insert("rowm".into(), json!(rowm));
    m.insert("cells".into(), cells_int(&cells, &mut exact));
    m.insert("exact".into(), json!(exact));
}

/// every score derived from a confusion matrix
fn cm_metrics_event<L: Label + Display>(cm: &ConfusionMatrix<L>, dec: &dyn Fn(&str) -> i64, m: &mut Map<String, Value>, out: &mut Vec<Value>) {
    let (members, _cells, _rowm) = parse_cm(&format!("{:?}", cm), dec);
    let mut exact = true;
    m.insert("members".into(), json!(members));
    m.insert("acc".into(), num(cm.accuracy() as f64));
    m.insert("prec".into(), num(cm.precision() as f64));
    m.insert("rec".into(), num(cm.recall() as f64));
    m.insert("f1".into(), num(cm.f1_score() as f64));
    m.insert("fh".into(), num(cm.f_score(0.5) as f64));
    m.insert("f2".into(), num(cm.f_score(2.0) as f64));
    m.insert("mcc".into(), num(cm.mcc() as f64));
    m.insert("ova".into(), split_json(cm.split_one_vs_all(), &mut exact));
    match guarded(|| cm.split_one_vs_one()) {
        Ok(v) => {
            m.insert("ovo".into(), split_json(v, &mut exact));
        }
        Err(msg) => {
            m.insert("ovo".into(), json!([]));
            out.push(panic_event("split_one_vs_one", &msg));
        }
    }
    m.insert("exact".into(), json!(exact));
}

fn cm_forms<L: Label + Display>(ty: &str, pred: &[L], truth: &[L], p: i64, dec: &dyn Fn(&str) -> i64, out: &mut Vec<Value>) {
    let n = pred.len();
    let pa: Array1<L> = Array1::from(pred.to_vec());
    let ta: Array1<L> = Array1::from(truth.to_vec());
    let recs = Array2::<f64>::zeros((n, 1));
    let forms = ["aa", "ar", "vv", "dd", "ad", "da"];
    for form in forms {
        let r = guarded(|| match form {
            "aa" => pa.confusion_matrix(ta.clone()),
            "ar" => pa.confusion_matrix(&ta),
            "vv" => pa.view().confusion_matrix(ta.view()),
            "dd" => {
                let dp = DatasetBase::new(recs.clone(), pa.clone());
                let dt = DatasetBase::new(recs.clone(), ta.clone());
                dp.confusion_matrix(&dt)
            }
            "ad" => {
                let dt = DatasetBase::new(recs.clone(), ta.clone());
                pa.confusion_matrix(&dt)
            }
            _ => {
                let dp = DatasetBase::new(recs.clone(), pa.clone());
                dp.confusion_matrix(&ta)
            }
        });
        let mut m = Map::new();
        m.insert("ty".into(), json!(ty));
        m.insert("form".into(), json!(form));
        m.insert("p".into(), json!(p));
        match r {
            Ok(Ok(cm)) => {
                m.insert("ev".into(), json!("cm"));
                match guarded(|| {
                    let mut mm = Map::new();
                    cm_cells_event(&cm, dec, &mut mm);
                    mm
                }) {
                    Ok(mm) => {
                        for (k, v) in mm {
                            m.insert(k, v);
                        }
                        out.push(Value::Object(m));
                    }
                    Err(msg) => out.push(panic_event("cm_debug", &msg)),
                }
                if form == "ar" {
                    // the derived scores are methods of the matrix: logged once per label type
                    match guarded(|| {
                        let mut extra = Vec::new();
                        let mut mm = Map::new();
                        mm.insert("ev".into(), json!("cmm"));
                        mm.insert("ty".into(), json!(ty));
                        mm.insert("p".into(), json!(p));
                        cm_metrics_event(&cm, dec, &mut mm, &mut extra);
                        (mm, extra)
                    }) {
                        Ok((mm, extra)) => {
                            out.push(Value::Object(mm));
                            out.extend(extra);
                        }
                        Err(msg) => out.push(panic_event("cm_metrics", &msg)),
                    }
                }
            }
            Ok(Err(e)) => {
                m.insert("ev".into(), json!("cmerr"));
                m.insert("msg".into(), json!(format!("{:?}", e).chars().filter(|c| c.is_ascii_alphanumeric() || *c == ' ').take(80).collect::<String>()));
                out.push(Value::Object(m));
            }
            Err(msg) => out.push(panic_event("confusion_matrix", &msg)),
        }
    }
}

fn run_cm(inp: &Value) -> Vec<Value> {
    let pred = ivec(&inp["pred"]);
    let truth = ivec(&inp["truth"]);
    let perm = get_perm(inp, pred.len());
    let mut out = Vec::new();
    let binary = pred.iter().chain(truth.iter()).all(|x| *x == 0 || *x == 1);
    let mut variants = vec![(0i64, pred.clone(), truth.clone())];
    if !is_identity(&perm) {
        variants.push((1, permute(&pred, &perm), permute(&truth, &perm)));
    }
    for (p, pr, tr) in variants {
        let pu: Vec<usize> = pr.iter().map(|x| *x as usize).collect();
        let tu: Vec<usize> = tr.iter().map(|x| *x as usize).collect();
        cm_forms("usize", &pu, &tu, p, &|s| s.parse::<i64>().unwrap_or(-1), &mut out);
        let ps: Vec<String> = pr.iter().map(|x| format!("l{}", x)).collect();
        let ts: Vec<String> = tr.iter().map(|x| format!("l{}", x)).collect();
        cm_forms("str", &ps, &ts, p, &|s| s.trim_start_matches('l').parse::<i64>().unwrap_or(-1), &mut out);
        if binary {
            let pb: Vec<bool> = pr.iter().map(|x| *x == 1).collect();
            let tb: Vec<bool> = tr.iter().map(|x| *x == 1).collect();
            cm_forms("bool", &pb, &tb, p, &dec_bool, &mut out);
        }
    }
    out
}

// ---------------------------------------------------------------------------------------------
// ROC / AUC / log-loss

fn roc_json(form: &str, p: i64, r: Result<Result<linfa::metrics::ReceiverOperatingCharacteristic, linfa::Error>, String>, out: &mut Vec<Value>) {
    match r {
        Ok(Ok(roc)) => {
            let curve: Vec<Value> = roc.get_curve().iter().map(|(a, b)| json!([num(*a as f64), num(*b as f64)])).collect();
            out.push(json!({"ev": "roc", "form": form, "p": p, "curve": curve, "auc": num(roc.area_under_curve() as f64)}));
        }
        Ok(Err(_)) => out.push(json!({"ev": "rocerr", "form": form, "p": p})),
        Err(msg) => out.push(panic_event("roc", &msg)),
    }
}
fn ll_json(form: &str, p: i64, r: Result<Result<f32, linfa::Error>, String>, out: &mut Vec<Value>) {
    match r {
        Ok(x) => out.push(json!({"ev": "ll", "form": form, "p": p, "v": res(x, num4)})),
        Err(msg) => out.push(panic_event("log_loss", &msg)),
    }
}

fn run_roc(inp: &Value) -> Vec<Value> {
    let nums = ivec(&inp["num"]);
    let den = geti(inp, "den") as f32;
    let truth: Vec<bool> = ivec(&inp["truth"]).iter().map(|x| *x == 1).collect();
    let perm = get_perm(inp, nums.len());
    let mut out = Vec::new();
    let mut variants = vec![(0i64, nums.clone(), truth.clone())];
    if !is_identity(&perm) {
        variants.push((1, permute(&nums, &perm), permute(&truth, &perm)));
    }
    for (p, ns, tr) in variants {
        let n = ns.len();
        let scores: Vec<Pr> = ns.iter().map(|k| Pr::new(*k as f32 / den)).collect();
        let sa: Array1<Pr> = Array1::from(scores.clone());
        let recs = Array2::<f64>::zeros((n, 1));
        {
            let sl: &[Pr] = &scores;
            roc_json("slice", p, guarded(|| sl.roc(&tr[..])), &mut out);
            ll_json("slice", p, guarded(|| sl.log_loss(&tr[..])), &mut out);
        }
        roc_json("arr", p, guarded(|| sa.roc(&tr[..])), &mut out);
        ll_json("arr", p, guarded(|| sa.log_loss(&tr[..])), &mut out);
        let ds = DatasetBase::new(recs.clone(), sa.clone());
        let dt = DatasetBase::new(recs.clone(), Array1::from(tr.clone()));
        roc_json("ds", p, guarded(|| ds.roc(&dt)), &mut out);
        ll_json("ds", p, guarded(|| ds.log_loss(&dt)), &mut out);
    }
    out
}

/// ulp-neighbour scores: rank r -> 1/2 + r 2^-24 ("half"), r 2^-30 ("zero"), 1 - r 2^-24 ("one");
/// all exactly representable in f32 for the small ranks used, gaps >= 2^-30 > 1e-10
fn run_rocu(inp: &Value) -> Vec<Value> {
    let ranks = ivec(&inp["rank"]);
    let base = gets(inp, "base").to_string();
    let truth: Vec<bool> = ivec(&inp["truth"]).iter().map(|x| *x == 1).collect();
    let perm = get_perm(inp, ranks.len());
    let mut out = Vec::new();
    let mut variants = vec![(0i64, ranks.clone(), truth.clone())];
    if !is_identity(&perm) {
        variants.push((1, permute(&ranks, &perm), permute(&truth, &perm)));
    }
    let ulp24 = 2f32.powi(-24);
    let ulp30 = 2f32.powi(-30);
    for (p, rs, tr) in variants {
        let n = rs.len();
        let scores: Vec<Pr> = rs
            .iter()
            .map(|r| {
                let r = *r as f32;
                Pr::new(match base.as_str() {
                    "half" => 0.5f32 + r * ulp24,
                    "zero" => r * ulp30,
                    _ => 1.0f32 - r * ulp24,
                })
            })
            .collect();
        let sa: Array1<Pr> = Array1::from(scores.clone());
        let recs = Array2::<f64>::zeros((n, 1));
        {
            let sl: &[Pr] = &scores;
            roc_json("slice", p, guarded(|| sl.roc(&tr[..])), &mut out);
        }
        roc_json("arr", p, guarded(|| sa.roc(&tr[..])), &mut out);
        let ds = DatasetBase::new(recs.clone(), sa.clone());
        let dt = DatasetBase::new(recs.clone(), Array1::from(tr.clone()));
        roc_json("ds", p, guarded(|| ds.roc(&dt)), &mut out);
    }
    out
}

// ---------------------------------------------------------------------------------------------
// regression scores

macro_rules! reg_events {
    ($f:ty, $ft:expr, $a:expr, $b:expr, $p:expr, $out:expr) => {{
        let a: Array1<$f> = Array1::from($a.iter().map(|x| *x as $f).collect::<Vec<$f>>());
        let b: Array1<$f> = Array1::from($b.iter().map(|x| *x as $f).collect::<Vec<$f>>());
        let n = a.len();
        let recs = Array2::<$f>::zeros((n, 1));
        let da = DatasetBase::new(recs.clone(), a.clone());
        let db = DatasetBase::new(recs.clone(), b.clone());
        macro_rules! one {
            ($form:expr, $x:expr, $y:expr) => {{
                let r = guarded(|| {
                    json!({"ev": "reg", "ft": $ft, "form": $form, "p": $p,
                        "max": res($x.max_error($y), num),
                        "mae": res($x.mean_absolute_error($y), num),
                        "mse": res($x.mean_squared_error($y), num),
                        "msle": res($x.mean_squared_log_error($y), num4),
                        "medae": res($x.median_absolute_error($y), num),
                        "mape": res($x.mean_absolute_percentage_error($y), num),
                        "r2": res($x.r2($y), num),
                        "evar": res($x.explained_variance($y), num)})
                });
                match r {
                    Ok(v) => $out.push(v),
                    Err(msg) => $out.push(panic_event("regression", &msg)),
                }
            }};
        }
        one!("aa", a, &b);
        one!("vv", a.view(), &b.view());
        one!("da", da, &b);
        one!("ad", a, &db);
        one!("dd", da, &db);
    }};
}

fn run_reg(inp: &Value) -> Vec<Value> {
    let a = ivec(&inp["a"]);
    let b = ivec(&inp["b"]);
    let perm = get_perm(inp, a.len());
    let mut out = Vec::new();
    let mut variants = vec![(0i64, a.clone(), b.clone())];
    if !is_identity(&perm) {
        variants.push((1, permute(&a, &perm), permute(&b, &perm)));
    }
    for (p, x, y) in variants {
        reg_events!(f64, "f64", x, y, p, out);
        reg_events!(f32, "f32", x, y, p, out);
    }
    out
}

/// offset family: values off + a/unit, off + b/unit in the float type of the case; only the scores that are
/// invariant under a common shift are logged (MAPE and MSLE are not and are left to the un-shifted families)
macro_rules! regs_events {
    ($f:ty, $ft:expr, $va:expr, $vb:expr, $exact:expr, $p:expr, $out:expr) => {{
        let a: Array1<$f> = Array1::from($va.iter().map(|x| *x as $f).collect::<Vec<$f>>());
        let b: Array1<$f> = Array1::from($vb.iter().map(|x| *x as $f).collect::<Vec<$f>>());
        let n = a.len();
        let recs = Array2::<$f>::zeros((n, 1));
        let da = DatasetBase::new(recs.clone(), a.clone());
        let db = DatasetBase::new(recs.clone(), b.clone());
        macro_rules! one {
            ($form:expr, $x:expr, $y:expr) => {{
                let r = guarded(|| {
                    json!({"ev": "regs", "ft": $ft, "form": $form, "p": $p, "exact": $exact,
                        "max": res($x.max_error($y), num),
                        "mae": res($x.mean_absolute_error($y), num),
                        "mse": res($x.mean_squared_error($y), num),
                        "medae": res($x.median_absolute_error($y), num),
                        "r2": res($x.r2($y), num),
                        "evar": res($x.explained_variance($y), num)})
                });
                match r {
                    Ok(v) => $out.push(v),
                    Err(msg) => $out.push(panic_event("regression_offset", &msg)),
                }
            }};
        }
        one!("aa", a, &b);
        one!("vv", a.view(), &b.view());
        one!("da", da, &b);
        one!("ad", a, &db);
        one!("dd", da, &db);
        // multi-target: two identical columns, the second column's scores are logged
        let a2: Array2<$f> = Array2::from_shape_fn((n, 2), |(i, _)| a[i]);
        let b2: Array2<$f> = Array2::from_shape_fn((n, 2), |(i, _)| b[i]);
        let r = guarded(|| {
            let second = |r: Result<Array1<$f>, linfa::Error>| -> Value {
                match r {
                    Ok(v) if v.len() == 2 => num(v[1] as f64),
                    _ => tagged("err", 0),
                }
            };
            json!({"ev": "regs", "ft": $ft, "form": "mt", "p": $p, "exact": $exact,
                "max": second(a2.max_error(&b2)),
                "mae": second(a2.mean_absolute_error(&b2)),
                "mse": second(a2.mean_squared_error(&b2)),
                "medae": second(a2.median_absolute_error(&b2)),
                "r2": second(a2.r2(&b2)),
                "evar": second(a2.explained_variance(&b2))})
        });
        match r {
            Ok(v) => $out.push(v),
            Err(msg) => $out.push(panic_event("multi_regression_offset", &msg)),
        }
    }};
}

fn run_regs(inp: &Value) -> Vec<Value> {
    let a = ivec(&inp["a"]);
    let b = ivec(&inp["b"]);
    let unit = geti(inp, "unit") as f64;
    let off: f64 = gets(inp, "off").parse().expect("offset");
    let ft = gets(inp, "ft").to_string();
    let perm = get_perm(inp, a.len());
    let mut out = Vec::new();
    let mut variants = vec![(0i64, a.clone(), b.clone())];
    if !is_identity(&perm) {
        variants.push((1, permute(&a, &perm), permute(&b, &perm)));
    }
    for (p, x, y) in variants {
        let va: Vec<f64> = x.iter().map(|k| off + (*k as f64) / unit).collect();
        let vb: Vec<f64> = y.iter().map(|k| off + (*k as f64) / unit).collect();
        // the generator promises exactly representable inputs; recorded so that the specification can insist on it
        let exact64 = x.iter().zip(va.iter()).chain(y.iter().zip(vb.iter())).all(|(k, v)| (*v - off) * unit == *k as f64);
        if ft == "f32" {
            let exact = exact64 && va.iter().chain(vb.iter()).all(|v| (*v as f32) as f64 == *v);
            regs_events!(f32, "f32", va, vb, exact, p, out);
        } else {
            regs_events!(f64, "f64", va, vb, exact64, p, out);
        }
    }
    out
}

macro_rules! mreg_events {
    ($f:ty, $ft:expr, $a:expr, $b:expr, $p:expr, $out:expr) => {{
        // $a, $b: Vec<Vec<i64>> as lists of columns
        let t = $a.len();
        let n = $a[0].len();
        let a: Array2<$f> = Array2::from_shape_fn((n, t), |(i, j)| $a[j][i] as $f);
        let b: Array2<$f> = Array2::from_shape_fn((n, t), |(i, j)| $b[j][i] as $f);
        let recs = Array2::<$f>::zeros((n, 1));
        let da = DatasetBase::new(recs.clone(), a.clone());
        let db = DatasetBase::new(recs.clone(), b.clone());
        macro_rules! one {
            ($form:expr, $x:expr, $y:expr) => {{
                let r = guarded(|| {
                    json!({"ev": "mreg", "ft": $ft, "form": $form, "p": $p,
                        "max": resv($x.max_error($y), num),
                        "mae": resv($x.mean_absolute_error($y), num),
                        "mse": resv($x.mean_squared_error($y), num),
                        "msle": resv($x.mean_squared_log_error($y), num4),
                        "medae": resv($x.median_absolute_error($y), num),
                        "mape": resv($x.mean_absolute_percentage_error($y), num),
                        "r2": resv($x.r2($y), num),
                        "evar": resv($x.explained_variance($y), num)})
                });
                match r {
                    Ok(v) => $out.push(v),
                    Err(msg) => $out.push(panic_event("multi_regression", &msg)),
                }
            }};
        }
        one!("aa", a, &b);
        one!("da", da, &b);
        one!("dd", da, &db);
    }};
}

fn run_mreg(inp: &Value) -> Vec<Value> {
    let a = imat(&inp["a"]);
    let b = imat(&inp["b"]);
    let n = a[0].len();
    let perm = get_perm(inp, n);
    let mut out = Vec::new();
    let mut variants = vec![(0i64, a.clone(), b.clone())];
    if !is_identity(&perm) {
        variants.push((1, a.iter().map(|c| permute(c, &perm)).collect(), b.iter().map(|c| permute(c, &perm)).collect()));
    }
    for (p, x, y) in variants {
        mreg_events!(f64, "f64", x, y, p, out);
        mreg_events!(f32, "f32", x, y, p, out);
    }
    out
}

// ---------------------------------------------------------------------------------------------
// silhouette

macro_rules! sil_events {
    ($f:ty, $ft:expr, $pos:expr, $lab:expr, $p:expr, $out:expr) => {{
        let n = $pos.len();
        for emb in ["1d", "345"] {
            let recs: Array2<$f> = if emb == "1d" {
                Array2::from_shape_fn((n, 1), |(i, _)| $pos[i] as $f)
            } else {
                Array2::from_shape_fn((n, 2), |(i, j)| (if j == 0 { 3 } else { 4 } * $pos[i]) as $f)
            };
            let lu: Array1<usize> = Array1::from($lab.iter().map(|x| *x as usize).collect::<Vec<usize>>());
            let ls: Array1<String> = Array1::from($lab.iter().map(|x| format!("l{}", x)).collect::<Vec<String>>());
            let du = DatasetBase::new(recs.clone(), lu);
            match guarded(|| du.silhouette_score()) {
                Ok(r) => $out.push(json!({"ev": "sil", "ft": $ft, "emb": emb, "ty": "usize", "p": $p, "v": res(r, num)})),
                Err(msg) => $out.push(panic_event("silhouette", &msg)),
            }
            let dsr = DatasetBase::new(recs.view(), ls);
            match guarded(|| dsr.silhouette_score()) {
                Ok(r) => $out.push(json!({"ev": "sil", "ft": $ft, "emb": emb, "ty": "str", "p": $p, "v": res(r, num)})),
                Err(msg) => $out.push(panic_event("silhouette", &msg)),
            }
        }
    }};
}

fn run_sil(inp: &Value) -> Vec<Value> {
    let pos = ivec(&inp["pos"]);
    let lab = ivec(&inp["lab"]);
    let perm = get_perm(inp, pos.len());
    let mut out = Vec::new();
    let mut variants = vec![(0i64, pos.clone(), lab.clone())];
    if !is_identity(&perm) {
        variants.push((1, permute(&pos, &perm), permute(&lab, &perm)));
    }
    for (p, x, l) in variants {
        sil_events!(f64, "f64", x, l, p, out);
        sil_events!(f32, "f32", x, l, p, out);
    }
    out
}

// ---------------------------------------------------------------------------------------------
// Pearson correlation

macro_rules! pear_events {
    ($f:ty, $ft:expr, $cols:expr, $p:expr, $out:expr) => {{
        let m = $cols.len();
        let n = $cols[0].len();
        let data: Array2<$f> = Array2::from_shape_fn((n, m), |(i, j)| $cols[j][i] as $f);
        let r = guarded(|| {
            let ds = DatasetBase::from(data.clone());
            let pc = ds.pearson_correlation();
            let a: Vec<Value> = pc.get_coeffs().iter().map(|x| num(*x as f64)).collect();
            let dv = DatasetBase::from(data.view());
            let pv = dv.pearson_correlation();
            let b: Vec<Value> = pv.get_coeffs().iter().map(|x| num(*x as f64)).collect();
            (a, b)
        });
        match r {
            Ok((a, b)) => {
                $out.push(json!({"ev": "pear", "ft": $ft, "form": "owned", "p": $p, "v": a}));
                $out.push(json!({"ev": "pear", "ft": $ft, "form": "view", "p": $p, "v": b}));
            }
            Err(msg) => $out.push(panic_event("pearson", &msg)),
        }
    }};
}

/// The `Display` rendering binds coefficients to feature names: line i is `name_i`, padding, then the
/// coefficients of the pairs (i, j), j > i, with two decimals; the last line is the last name alone.
/// Logged as rows `[index i of the name "f<i>:" (or -1), [round(value * 100) ..]]` (99999 = not a number).
fn pear_display(cols: &[Vec<i64>], p: i64, out: &mut Vec<Value>) {
    let m = cols.len();
    let n = cols[0].len();
    let data: Array2<f64> = Array2::from_shape_fn((n, m), |(i, j)| cols[j][i] as f64);
    let r = guarded(|| {
        // names end in ':' because Display puts no blank between the longest name and the first coefficient
        let names: Vec<String> = (0..m).map(|j| format!("f{}:", j)).collect();
        let ds = DatasetBase::from(data.clone()).with_feature_names(names);
        format!("{}", ds.pearson_correlation())
    });
    match r {
        Ok(text) => {
            let rows: Vec<Value> = text
                .lines()
                .filter(|l| !l.trim().is_empty())
                .map(|l| {
                    let (name, rest) = match l.find(':') {
                        Some(k) => (&l[..k], &l[k + 1..]),
                        None => ("", l),
                    };
                    let idx = name.trim().strip_prefix('f').and_then(|x| x.parse::<i64>().ok()).unwrap_or(-1);
                    let vals: Vec<i64> = rest
                        .split_whitespace()
                        .map(|t| match t.parse::<f64>() {
                            Ok(v) if v.is_finite() => (v * 100.0).round() as i64,
                            _ => 99999,
                        })
                        .collect();
                    json!([idx, vals])
                })
                .collect();
            out.push(json!({"ev": "peard", "p": p, "rows": rows}));
        }
        Err(msg) => out.push(panic_event("pearson_display", &msg)),
    }
}

fn run_pear(inp: &Value) -> Vec<Value> {
    let cols = imat(&inp["cols"]);
    let n = cols[0].len();
    let perm = get_perm(inp, n);
    let mut out = Vec::new();
    let mut variants = vec![(0i64, cols.clone())];
    if !is_identity(&perm) {
        variants.push((1, cols.iter().map(|c| permute(c, &perm)).collect()));
    }
    for (p, x) in variants {
        pear_events!(f64, "f64", x, p, out);
        pear_events!(f32, "f32", x, p, out);
        pear_display(&x, p, &mut out);
    }
    out
}

fn main() {
    run_cases(|case| {
        let inp = &case["inp"];
        match gets(case, "kind") {
            "cm" => run_cm(inp),
            "roc" => run_roc(inp),
            "rocu" => run_rocu(inp),
            "reg" => run_reg(inp),
            "regs" => run_regs(inp),
            "mreg" => run_mreg(inp),
            "sil" => run_sil(inp),
            "pear" => run_pear(inp),
            k => vec![json!({"ev": "unknown_kind", "kind": k})],
        }
    });
}
