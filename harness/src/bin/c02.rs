//! C02 harness: programs of dataset operations on identity-tagged data.
//! Record cell (r,c) = 16r+c, weight of sample r = r + 0.5 (logged doubled), feature / target names
//! "f<c>" / "t<c>", labels from the case (`lab[r][c]`).  After every operation the projection of every
//! returned dataset is logged through the public accessors only (records(), targets(), weights(),
//! feature_names(), target_names(), label_count(), nsamples(), nfeatures(), ntargets()).
//! The harness does not judge anything: which results are admissible is decided by Trace_DatasetOps.
#![allow(unreachable_patterns)]
use linfa::dataset::{AsTargets, CountedTargets, DatasetBase, Label, Labels, Records};
use ndarray::{s, Array1, Array2, ArrayBase, ArrayView1, ArrayView2, Axis, Data, Ix2, ShapeBuilder};
use rand::rngs::SmallRng;
use rand::SeedableRng;
use vh::serde_json::{json, Value};
use vh::*;

// ---------------------------------------------------------------------------------------------
// labels: usize and bool, logged as integers (false = 0, true = 1)
trait Lab: Label + Copy {
    fn to_i(&self) -> i64;
    fn from_i(i: i64) -> Option<Self>;
}
impl Lab for usize {
    fn to_i(&self) -> i64 {
        *self as i64
    }
    fn from_i(i: i64) -> Option<Self> {
        if i >= 0 {
            Some(i as usize)
        } else {
            None
        }
    }
}
impl Lab for bool {
    fn to_i(&self) -> i64 {
        *self as i64
    }
    fn from_i(i: i64) -> Option<Self> {
        match i {
            0 => Some(false),
            1 => Some(true),
            _ => None,
        }
    }
}

// ---------------------------------------------------------------------------------------------
// the concrete dataset types that the operations can return
macro_rules! mk_enum {
    ($($v:ident($r:ty, $t:ty)),* $(,)?) => {
        enum DS<'a> { $($v(DatasetBase<$r, $t>)),* }
        impl<'a> DS<'a> {
            fn name(&self) -> &'static str { match self { $(DS::$v(_) => stringify!($v)),* } }
        }
        $(impl<'a> From<DatasetBase<$r, $t>> for DS<'a> {
            fn from(d: DatasetBase<$r, $t>) -> Self { DS::$v(d) }
        })*
    };
}
type CT<L, P> = CountedTargets<L, P>;
mk_enum! {
    OAU1(Array2<f64>, Array1<usize>), OAU2(Array2<f64>, Array2<usize>), OAB1(Array2<f64>, Array1<bool>),
    OCAU1(Array2<f64>, CT<usize, Array1<usize>>), OCAU2(Array2<f64>, CT<usize, Array2<usize>>), OCAB1(Array2<f64>, CT<bool, Array1<bool>>),
    VAU1(ArrayView2<'a, f64>, Array1<usize>), VAU2(ArrayView2<'a, f64>, Array2<usize>), VAB1(ArrayView2<'a, f64>, Array1<bool>),
    VAVU1(ArrayView2<'a, f64>, ArrayView1<'a, usize>), VAVU2(ArrayView2<'a, f64>, ArrayView2<'a, usize>), VAVB1(ArrayView2<'a, f64>, ArrayView1<'a, bool>),
    VCAU1(ArrayView2<'a, f64>, CT<usize, Array1<usize>>), VCAU2(ArrayView2<'a, f64>, CT<usize, Array2<usize>>), VCAB1(ArrayView2<'a, f64>, CT<bool, Array1<bool>>),
    VCAVU1(ArrayView2<'a, f64>, CT<usize, ArrayView1<'a, usize>>), VCAVU2(ArrayView2<'a, f64>, CT<usize, ArrayView2<'a, usize>>), VCAVB1(ArrayView2<'a, f64>, CT<bool, ArrayView1<'a, bool>>),
}

/// evaluate `$body` with `$d` bound to the concrete dataset, for the listed variants
macro_rules! on {
    ($ds:expr, [$($v:ident),*], $d:ident => $body:expr, else $e:expr) => {
        match $ds { $(DS::$v($d) => $body,)* _ => $e }
    };
}
macro_rules! all {
    ($ds:expr, $d:ident => $body:expr) => {
        on!($ds, [OAU1, OAU2, OAB1, OCAU1, OCAU2, OCAB1, VAU1, VAU2, VAB1, VAVU1, VAVU2, VAVB1, VCAU1, VCAU2, VCAB1, VCAVU1, VCAVU2, VCAVB1],
            $d => $body, else unreachable!())
    };
}
/// records are an ArrayView2 (the view implementation of split_with_ratio)
macro_rules! viewrec {
    ($ds:expr, $d:ident => $body:expr, else $e:expr) => {
        on!($ds, [VAU1, VAU2, VAB1, VAVU1, VAVU2, VAVB1, VCAU1, VCAU2, VCAB1, VCAVU1, VCAVU2, VCAVB1], $d => $body, else $e)
    };
}
/// Dataset<F, E, I>: owned records and owned plain targets
macro_rules! plainowned {
    ($ds:expr, $d:ident => $body:expr, else $e:expr) => {
        on!($ds, [OAU1, OAU2, OAB1], $d => $body, else $e)
    };
}
macro_rules! dim1 {
    ($ds:expr, $d:ident => $body:expr, else $e:expr) => {
        on!($ds, [OAU1, OAB1, OCAU1, OCAB1, VAU1, VAB1, VAVU1, VAVB1, VCAU1, VCAB1, VCAVU1, VCAVB1], $d => $body, else $e)
    };
}

// ---------------------------------------------------------------------------------------------
// projection through the public accessors
fn cells(r: &ArrayView1<f64>) -> Value {
    Value::Array(r.iter().map(|x| json!(*x as i64)).collect())
}

fn proj<D, T, L>(name: &str, label: i64, d: &DatasetBase<ArrayBase<D, Ix2>, T>) -> Value
where
    D: Data<Elem = f64>,
    L: Lab,
    T: AsTargets<Elem = L> + Labels<Elem = L>,
{
    let rec: Vec<Value> = d.records().outer_iter().map(|r| cells(&r)).collect();
    let tg = d.targets().as_targets();
    let tgt: Vec<Value> = tg.axis_iter(Axis(0)).map(|r| Value::Array(r.iter().map(|x| json!(x.to_i())).collect())).collect();
    let w: Vec<Value> = d.weights().map(|w| w.iter().map(|x| json!((2.0 * *x as f64).round() as i64)).collect()).unwrap_or_default();
    let lc: Vec<Value> = d
        .label_count()
        .iter()
        .map(|m| {
            let mut v: Vec<(i64, i64)> = m.iter().map(|(k, c)| (k.to_i(), *c as i64)).collect();
            v.sort();
            Value::Array(v.into_iter().map(|(k, c)| json!([k, c])).collect())
        })
        .collect();
    json!({
        "ty": name, "label": label,
        "ns": d.nsamples(), "nf": d.nfeatures(), "nt": d.ntargets(),
        "rec": rec, "tgt": tgt, "w": w,
        "fn": d.feature_names(), "tn": d.target_names(), "lc": lc,
    })
}

impl<'a> DS<'a> {
    fn proj(&self, label: i64) -> Value {
        all!(self, d => proj(self.name(), label, d))
    }
    fn nsamples(&self) -> usize {
        all!(self, d => d.nsamples())
    }
    fn std_layout(&self) -> bool {
        all!(self, d => d.records().is_standard_layout())
    }
}

fn conv_labels<L: Lab>(ls: &[i64]) -> Vec<L> {
    ls.iter().filter_map(|i| L::from_i(*i)).collect()
}
fn map_fn(which: i64, x: i64) -> usize {
    (match which {
        0 => x + 1,
        1 => x / 2,
        _ => (2 * x + 1) % 3, // 0,1,2 -> 1,0,2: not monotone
    }) as usize
}

// ---------------------------------------------------------------------------------------------
// one operation
enum Out<'s> {
    Results(Vec<(i64, DS<'s>)>), // (label of a one-vs-all view or -1, dataset)
    Pairs(Value),                // sample_iter
    Proto(Value),                // iterator protocol: {"tot": .., "out": [..]}
    NotApplicable,
    StopEmpty, // bootstrap of an empty dataset is not attempted
}

/// item of a dataset-yielding iterator: [records, targets]
fn ds_item<D, T, L>(d: &DatasetBase<ArrayBase<D, Ix2>, T>) -> Value
where
    D: Data<Elem = f64>,
    L: Lab,
    T: AsTargets<Elem = L>,
{
    let rec: Vec<Value> = d.records().outer_iter().map(|r| cells(&r)).collect();
    let tg = d.targets().as_targets();
    let tgt: Vec<Value> = tg.axis_iter(Axis(0)).map(|r| Value::Array(r.iter().map(|x| json!(x.to_i())).collect())).collect();
    json!([rec, tgt])
}

/// Runs an iterator protocol (steps = code * 100 + j: 1 next, 2 nth(j), 3 by_ref().take(j), 4 size_hint, consuming:
/// 5 collect, 6 skip(j), 7 step_by(j), 8 last, 9 count) on a fresh iterator; every consuming step is bounded by
/// tot + 3 pulls (tot = length of a fresh iterator walked with next() only), so that a non-terminating adaptor is cut
/// off and shows as too many items.
fn run_protocol<I: Iterator, M: Fn() -> I, K: Fn(I::Item) -> Value>(mk: M, steps: &[i64], key: K) -> Value {
    let tot = mk().take(200).count();
    let b = tot + 3;
    let mut it = Some(mk());
    let mut out = vec![];
    for s in steps {
        let (k, j) = (s / 100, (s % 100) as usize);
        let mut cur = match it.take() {
            Some(c) => c,
            None => break,
        };
        let mut items: Vec<Value> = vec![];
        let (mut n, mut lo, mut hi) = (-1i64, -1i64, -1i64);
        match k {
            1 => {
                items = cur.next().into_iter().map(|x| key(x)).collect();
                it = Some(cur);
            }
            2 => {
                items = cur.nth(j).into_iter().map(|x| key(x)).collect();
                it = Some(cur);
            }
            3 => {
                items = cur.by_ref().take(j).map(|x| key(x)).collect();
                it = Some(cur);
            }
            4 => {
                let (l, h) = cur.size_hint();
                lo = l.min(1 << 20) as i64;
                hi = h.map(|x| x.min(1 << 20) as i64).unwrap_or(-1);
                it = Some(cur);
            }
            5 => items = cur.take(b).map(|x| key(x)).collect(),
            6 => items = cur.skip(j).take(b).map(|x| key(x)).collect(),
            7 => items = cur.step_by(j.max(1)).take(b).map(|x| key(x)).collect(),
            8 => items = cur.take(b).last().into_iter().map(|x| key(x)).collect(),
            9 => n = cur.take(b).count() as i64,
            _ => panic!("unknown protocol step {}", s),
        }
        let cut = items.len() >= b || n >= b as i64;
        out.push(json!({"k": k, "j": j, "items": items, "n": n, "lo": lo, "hi": hi, "cut": cut}));
    }
    json!({"tot": tot, "out": out})
}

fn wrap1<'s, X: Into<DS<'s>>>(x: X) -> Out<'s> {
    Out::Results(vec![(-1, x.into())])
}
fn wrapn<'s, X: Into<DS<'s>>>(xs: impl IntoIterator<Item = X>) -> Out<'s> {
    Out::Results(xs.into_iter().map(|x| (-1, x.into())).collect())
}

fn apply<'s>(ds: &'s DS<'s>, op: &Value) -> Out<'s> {
    let name = gets(op, "op");
    let a = geti(op, "a");
    let b = geti(op, "b");
    let ls = ivec(&op["ls"]);
    match name {
        "view" => all!(ds, d => wrap1(d.view())),
        "split" => {
            // ratio = a / 2^b exactly (a < 2^24)
            let ratio = (a as f32) * (2.0f32).powi(-(b as i32));
            viewrec!(ds, d => { let (x, y) = d.split_with_ratio(ratio); wrapn(vec![x, y]) },
                else plainowned!(ds, d => { let (x, y) = d.clone().split_with_ratio(ratio); wrapn(vec![x, y]) },
                else Out::NotApplicable))
        }
        "shuffle" => {
            let mut rng = SmallRng::seed_from_u64(seed() ^ (a as u64).wrapping_mul(0x9e3779b97f4a7c15));
            all!(ds, d => wrap1(d.shuffle(&mut rng)))
        }
        "boot" | "boots" | "bootf" => {
            // (the columns drawn by bootstrap_features cannot be read off an empty result: not attempted)
            if name == "bootf" && ds.nsamples() == 0 {
                return Out::StopEmpty;
            }
            let mut rng = SmallRng::seed_from_u64(seed().wrapping_add(7919 * (a as u64) + 31 * (b as u64) + 1));
            match name {
                "boot" => all!(ds, d => { let v: Vec<_> = d.bootstrap((a as usize, b as usize), &mut rng).take(2).collect(); wrapn(v) }),
                "boots" => all!(ds, d => { let v: Vec<_> = d.bootstrap_samples(a as usize, &mut rng).take(2).collect(); wrapn(v) }),
                _ => all!(ds, d => { let v: Vec<_> = d.bootstrap_features(a as usize, &mut rng).take(2).collect(); wrapn(v) }),
            }
        }
        "wl" => all!(ds, d => wrap1(d.with_labels(&conv_labels(&ls)))),
        "ova" => dim1!(ds, d => {
            let v = d.one_vs_all().expect("one_vs_all");
            let mut v: Vec<(i64, DS<'s>)> = v.into_iter().map(|(l, x)| (l.to_i(), x.into())).collect();
            v.sort_by_key(|x| x.0);
            Out::Results(v)
        }, else Out::NotApplicable),
        "chunk" => all!(ds, d => { let v: Vec<_> = d.sample_chunks(a as usize).take(d.nsamples() + 2).collect(); wrapn(v) }),
        "siter" => all!(ds, d => {
            let v: Vec<Value> = d.sample_iter().map(|(x, y)| json!([cells(&x), y.iter().map(|l| l.to_i()).collect::<Vec<i64>>()])).collect();
            Out::Pairs(Value::Array(v))
        }),
        "iterp" => match a {
            0 => all!(ds, d => Out::Proto(run_protocol(|| d.sample_iter(), &ls,
                |(x, y)| json!([cells(&x), y.iter().map(|l| l.to_i()).collect::<Vec<i64>>()])))),
            1 => all!(ds, d => Out::Proto(run_protocol(|| d.feature_iter(), &ls, |v| ds_item(&v)))),
            2 => all!(ds, d => Out::Proto(run_protocol(|| d.target_iter(), &ls, |v| ds_item(&v)))),
            _ => all!(ds, d => Out::Proto(run_protocol(|| d.sample_chunks(b as usize), &ls, |v| ds_item(&v)))),
        },
        "titer" => all!(ds, d => { let v: Vec<_> = d.target_iter().collect(); wrapn(v) }),
        "fiter" => all!(ds, d => { let v: Vec<_> = d.feature_iter().collect(); wrapn(v) }),
        "map" => all!(ds, d => wrap1(d.clone().map_targets(|x| map_fn(a, x.to_i())))),
        "toowned" => all!(ds, d => wrap1(d.to_owned())),
        // called for any number of target columns: with t != 1 the documented outcome is a panic
        "single" => on!(ds, [OAU2], d => wrap1(d.clone().into_single_target()), else Out::NotApplicable),
        _ => panic!("unknown op {}", name),
    }
}

/// ndarray views are invariant in their lifetime and the view implementation of `split_with_ratio`
/// borrows `self` for exactly the lifetime of its records, so a dataset must be borrowed for the very
/// lifetime it is parameterised with.  The dataset is therefore put on the heap, lent out for `'s`
/// and freed when `f` returns (everything derived from it is created and dropped inside `f`).
fn with_pinned<'s, R>(d: DS<'s>, f: impl FnOnce(&'s DS<'s>) -> R) -> R {
    let p: *mut DS<'s> = Box::into_raw(Box::new(d));
    let r = f(unsafe { &*p });
    unsafe { drop(Box::from_raw(p)) };
    r
}

fn run_prog<'s>(ds: &'s DS<'s>, ops: &[Value], i: usize, log: &mut Vec<Value>) {
    if i == ops.len() {
        log.push(json!({"ev": "end"}));
        return;
    }
    let op = &ops[i];
    let name = gets(op, "op");
    let std = ds.std_layout();
    let out = match guarded(|| apply(ds, op)) {
        Ok(o) => o,
        Err(msg) => {
            log.push(json!({"ev": "panic", "i": i, "op": name, "std": std, "msg": msg}));
            return;
        }
    };
    match out {
        Out::NotApplicable => log.push(json!({"ev": "na", "i": i, "op": name})),
        Out::StopEmpty => log.push(json!({"ev": "stop", "i": i, "op": name, "why": "empty"})),
        Out::Pairs(p) => {
            log.push(json!({"ev": "op", "i": i, "op": name, "res": [], "pairs": p, "pick": -1}));
            run_prog(ds, ops, i + 1, log)
        }
        Out::Proto(p) => {
            log.push(json!({"ev": "op", "i": i, "op": name, "res": [], "pairs": [], "pick": -1, "tot": p["tot"], "out": p["out"]}));
            run_prog(ds, ops, i + 1, log)
        }
        Out::Results(mut rs) => {
            let res: Vec<Value> = rs.iter().map(|(l, d)| d.proj(*l)).collect();
            let pick: i64 = if rs.is_empty() { -1 } else { geti(op, "pick") % rs.len() as i64 };
            log.push(json!({"ev": "op", "i": i, "op": name, "res": res, "pairs": [], "pick": pick}));
            if pick < 0 {
                log.push(json!({"ev": "stop", "i": i, "op": name, "why": "nores"}));
                return;
            }
            let next = rs.swap_remove(pick as usize).1;
            drop(rs);
            with_pinned(next, |nx| run_prog(nx, ops, i + 1, log))
        }
    }
}

fn run(case: &Value) -> Vec<Value> {
    let inp = &case["inp"];
    let n = geti(inp, "n") as usize;
    let f = geti(inp, "f") as usize;
    let t = geti(inp, "t") as usize;
    let w = getb(inp, "w");
    let names = getb(inp, "names");
    let store = gets(inp, "store");
    let lab = imat(&inp["lab"]);
    let prog = geta(inp, "prog");

    // storage of the initial dataset:
    //   "owned" / "view"   freshly allocated row-major arrays / views of them
    //   "ownedoff"         the owned arrays are row-slices of larger allocations (one hidden leading row)
    //   "woff"             only the weight vector is such a slice
    //   "ownedf"           owned records in column-major layout
    //   "views2"           views of every second row of arrays twice as long (non-contiguous views)
    let off = if store == "ownedoff" { 1 } else { 0 };
    let step = if store == "views2" { 2 } else { 1 };
    let rows = step * n + off;
    let id = |r: usize| (r - off) / step; // sample id of physical row r (rows in between carry junk)
    let junk = |r: usize| r < off || (r - off) % step != 0;
    let rec_cell = |(r, c): (usize, usize)| if junk(r) { 9000.0 + c as f64 } else { (16 * id(r) + c) as f64 };
    let records = if store == "ownedf" { Array2::from_shape_fn((rows, f).f(), rec_cell) } else { Array2::from_shape_fn((rows, f), rec_cell) };
    let records = records.slice_move(s![off.., ..]);
    let nt = t.max(1);
    let targets2 = Array2::from_shape_fn((rows, nt), |(r, c)| if junk(r) { 77 } else { lab[id(r)][c] as usize });
    let targets2 = targets2.slice_move(s![off.., ..]);
    let targets1 = Array1::from_shape_fn(rows, |r| if junk(r) { 77 } else { lab[id(r)][0] as usize });
    let targets1 = targets1.slice_move(s![off..]);
    // "ownedoff" / "woff": the weights, too, are a slice of a larger allocation
    let woff = if store == "ownedoff" || store == "woff" { 1 } else { 0 };
    let weights = if w { Array1::from_shape_fn(n + woff, |r| if r < woff { 444.5 } else { (r - woff) as f32 + 0.5 }).slice_move(s![woff..]) } else { Array1::zeros(0) };
    let fnames: Vec<String> = if names { (0..f).map(|c| format!("f{}", c)).collect() } else { vec![] };
    let tnames: Vec<String> = if names { (0..nt).map(|c| format!("t{}", c)).collect() } else { vec![] };

    let mut log = Vec::new();
    macro_rules! go {
        ($r:expr, $t:expr) => {{
            let ds: DS = DatasetBase::new($r, $t).with_weights(weights).with_feature_names(fnames).with_target_names(tnames).into();
            let mut p = ds.proj(-1);
            p["ev"] = json!("init");
            log.push(p);
            with_pinned(ds, |d| run_prog(d, prog, 0, &mut log));
        }};
    }
    match (store, t) {
        ("view", 0) => go!(records.view(), targets1.view()),
        ("view", _) => go!(records.view(), targets2.view()),
        ("views2", 0) => go!(records.slice(s![..;2, ..]), targets1.slice(s![..;2])),
        ("views2", _) => go!(records.slice(s![..;2, ..]), targets2.slice(s![..;2, ..])),
        (_, 0) => go!(records, targets1),
        (_, _) => go!(records, targets2),
    }
    log
}

fn main() {
    run_cases(run);
}
