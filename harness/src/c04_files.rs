//! C04 helper harness for the one calling form the `vh` package cannot reach: `fit_files` of the count
//! vectoriser takes `encoding::EncodingRef` / `encoding::DecoderTrap`, and `encoding` is not a direct
//! dependency of the (shared) harness package. `props/c04.py` compiles this file with plain `rustc` against
//! the rlibs cargo has just built for the tree under test (paths taken from `cargo build
//! --message-format=json`), so it exercises exactly the same compiled linfa code as `c04`.
//!
//! usage: c04_files cases.ndjson out.ndjson scratch_dir
//! For every `countvec` case: the same program is executed on the real builder, then
//!   fit_files           on readable files (same documents as the in-memory `fit`)
//!   fit_files_missing   on a list whose second path does not exist (input that fails on its own)
//! are called on the unchecked builder and (when checking by value passes) twice on the checked
//! parameters. Output: one line per case `{"id":.., "ev":[call events]}`; `props/c04.py` splices the events
//! into the trace of the case (before `done`). No judgement here.
extern crate encoding;
extern crate linfa;
extern crate linfa_preprocessing;
extern crate vh;

use encoding::all::UTF_8;
use encoding::DecoderTrap;
use linfa::ParamGuard;
use linfa_preprocessing::{CountVectorizer, CountVectorizerParams, Tokenizer};
use vh::serde_json::{json, Value};
use vh::*;

const M: f64 = 1e6;
const REGEXES: [&str; 3] = [r"\b\w\w+\b", r"\b\w+\b", "("];

fn r32(x: i64) -> f32 {
    match x {
        -2_000_000_001 => -0.0,
        -2_000_000_002 => -1e-30,
        -2_000_000_003 => 1e-30,
        -2_000_000_004 => 1.0 - f32::EPSILON / 2.0,
        -2_000_000_005 => 1.0 + f32::EPSILON,
        _ => (x as f64 / M) as f32,
    }
}
fn clean(s: &str) -> String {
    s.chars().filter(|c| c.is_ascii() && !c.is_ascii_control() && *c != '"' && *c != '\\').take(240).collect()
}

fn build(prog: &[Value]) -> CountVectorizerParams {
    let mut p = CountVectorizer::params();
    for c in prog {
        let n = gets(c, "n");
        let a = ivec(&c["a"]);
        p = match n {
            "check_ref" => {
                let _ = p.check_ref();
                p
            }
            "check_clone" => {
                let _ = p.check_ref();
                p.clone()
            }
            "n_gram_range" => p.n_gram_range(a[0] as usize, a[1] as usize),
            "document_frequency" => p.document_frequency(r32(a[0]), r32(a[1])),
            "convert_to_lowercase" => p.convert_to_lowercase(a[0] != 0),
            "normalize" => p.normalize(a[0] != 0),
            "tokenizer_regex" => p.tokenizer(Tokenizer::Regex(REGEXES[(a[0] as usize).min(2)].to_string())),
            "max_features" => p.max_features(Some(a[0] as usize)),
            _ => {
                eprintln!("c04_files: unknown setter {}", n);
                std::process::exit(3)
            }
        };
    }
    p
}

fn dig(m: &CountVectorizer) -> Vec<f64> {
    let mut voc: Vec<String> = m.vocabulary().clone();
    voc.sort();
    let mut v = voc.join("|").bytes().map(|b| b as f64).collect::<Vec<f64>>();
    v.push(m.nentries() as f64);
    v
}

fn event(who: &str, form: &str, run: i64, r: Result<Result<CountVectorizer, String>, String>) -> Value {
    match r {
        Ok(Ok(m)) => json!({"ev": "call", "who": who, "form": form, "run": run, "res": "ok", "err": "", "dig": digest_f64(dig(&m).iter())}),
        Ok(Err(e)) => json!({"ev": "call", "who": who, "form": form, "run": run, "res": "err", "err": clean(&e), "dig": [0, 0]}),
        Err(p) => json!({"ev": "call", "who": who, "form": form, "run": run, "res": "panic", "err": clean(&p), "dig": [0, 0]}),
    }
}

fn main() {
    silence_panics();
    let cases = read_cases();
    let dir = std::env::args().nth(3).expect("scratch dir");
    std::fs::create_dir_all(&dir).unwrap();
    let docs = ["one two three four", "two three four", "three four", "four five six one"];
    let mut good: Vec<String> = Vec::new();
    for (i, d) in docs.iter().enumerate() {
        let p = format!("{}/doc{}.txt", dir, i);
        std::fs::write(&p, d).unwrap();
        good.push(p);
    }
    let missing = vec![good[0].clone(), format!("{}/no-such-file.txt", dir), good[1].clone()];
    let forms: [(&str, &Vec<String>); 2] = [("fit_files", &good), ("fit_files_missing", &missing)];
    let mut out = Vec::new();
    for c in &cases {
        if gets(c, "kind") != "countvec" {
            continue;
        }
        let prog = geta(&c["inp"], "prog");
        let mut ev = Vec::new();
        let p = build(prog);
        for (form, paths) in forms.iter() {
            ev.push(event("unchecked", form, 1, guarded(|| p.fit_files(paths, UTF_8, DecoderTrap::Strict).map_err(|e| e.to_string()))));
        }
        if let Ok(Ok(ck)) = guarded(|| build(prog).check().map_err(|e| e.to_string())) {
            for (form, paths) in forms.iter() {
                for run in 1..=2 {
                    ev.push(event("checked", form, run, guarded(|| ck.fit_files(paths, UTF_8, DecoderTrap::Strict).map_err(|e| e.to_string()))));
                }
            }
        }
        out.push(json!({"id": c["id"], "ev": ev}));
    }
    write_traces(&out);
}
